#!/usr/bin/env python3
"""Cross-check of the reference implementation's primitives against python's zlib / hashlib:
reads lines `<hex data> <crc32 hex> <leaf hash hex>` from stdin (leaf hash = BLAKE2b-256 of
0x00 || LE64(len) || data). Exit 0 iff all agree."""
import sys, zlib, hashlib, struct
n = bad = 0
for line in sys.stdin:
    parts = line.split()
    if len(parts) != 3:
        continue
    data = b"" if parts[0] == "-" else bytes.fromhex(parts[0])
    n += 1
    if "%08x" % (zlib.crc32(data) & 0xFFFFFFFF) != parts[1]:
        bad += 1; print("crc32 mismatch on", parts[0][:40])
    h = hashlib.blake2b(b"\x00" + struct.pack("<Q", len(data)) + data, digest_size=32).hexdigest()
    if h != parts[2]:
        bad += 1; print("blake2b leaf hash mismatch on", parts[0][:40])
print("crosscheck: %d vectors, %d mismatches" % (n, bad))
sys.exit(0 if n >= 64 and bad == 0 else 1)
