#!/usr/bin/env python3
"""selftest/make_prompts.py <round> <root>: writes one adversary prompt per property to
<root>/prompts/<ID>.txt. The prompt contains only the property's text (title, statement,
quantifier, why tests cannot settle it) and one-line titles of the changes earlier rounds
produced for it (to be avoided) - nothing else from /verif."""
import json, os, re, sys, glob
rnd, root = sys.argv[1], sys.argv[2]
tmpl = open("/verif/selftest/adversary_prompt_round5_example.txt").read()
head, rest = tmpl.split("-----\nProperty C13", 1)
_, tail = rest.split("-----\n\nYour task", 1)
task, _ = ("Your task" + tail).split("ADDITIONAL REQUIREMENT FOR THIS ROUND", 1)
also = tmpl.split("Also avoid these ideas already used for other properties:", 1)[1].strip()
props = [json.loads(l) for l in open("/verif/properties.jsonl")]
os.makedirs(f"{root}/prompts", exist_ok=True)
for p in props:
    pid = p["id"]
    earlier = []
    for d in sorted(glob.glob(f"/verif/seeded/{pid}-*")):
        n = os.path.join(d, "notes.md")
        if not os.path.exists(n): continue
        t = next((l for l in open(n) if l.strip()), "").strip()
        t = re.sub(r"^#*\s*", "", t)
        t = re.sub(r"^(C\d+\s+)?[Mm]utant\s*\d\s*(\(C\d+\))?\s*[-:–]*\s*", "", t)
        earlier.append(t[:160])
    body = f"-----\nProperty {pid}: {p['title']}\n\nStatement: {p['statement']}\n\nQuantified over: {p['quantifier']['text']}\n\nWhy existing tests cannot settle it: {p['why_tests_cant']}\n\n-----\n\n"
    extra = ("ADDITIONAL REQUIREMENT FOR THIS ROUND: earlier rounds already produced the following changes for this property, so do NOT produce these or close variants of them. "
      "Find breakages in OTHER code paths, configurations or mechanisms behind the property. Be inventive and aim for changes that are hard to notice: rarely combined features, boundary sizes "
      "(exactly one bitfield page, empty blocks, blocks at 4096-byte multiples, oplog entries around the 64 KiB forced-flush threshold, lengths crossing 2^k), second-order effects of the flushing rhythm "
      "(first operation after open, every fourth operation) and of header-slot alternation, partial knowledge on replicas, error paths, state that survives in memory but not on disk or vice versa, "
      "behaviour that differs only for the second or third occurrence of something, values that only matter after TWO reopen steps, interactions between clear and later appends/proofs, "
      "and pairs of code sites that are each harmless alone (e.g. one site stops maintaining a value that another site starts relying on).\n"
      + "".join(f"  {i+1}. {t}\n" for i, t in enumerate(earlier))
      + "\nAlso avoid these ideas already used for other properties: " + also + "\n")
    txt = (head + body + task + extra).replace("/tmp/mut5/C13", f"{root}/{pid}").replace("/tmp/mut5", root).replace("demo_C13_", f"demo_{pid}_")
    txt = txt.replace("Property C13", f"Property {pid}")
    open(f"{root}/prompts/{pid}.txt", "w").write(txt)
    print(pid, len(earlier))
