#!/bin/bash
# selftest/confirm_all.sh <ID>...   (MUT_ROOT as for confirm_mutant.sh): confirms mutants 1 and 2
# of every ID; picks --features cache / shared-core from the demo or notes.
cd /verif
ROOT=${MUT_ROOT:-/tmp/mut}
for id in "$@"; do for n in 1 2; do
  feat=""
  if grep -q 'cfg(feature = "cache")\|features cache' "$ROOT/$id/_out/demo$n.rs" "$ROOT/$id/_out/notes$n.md" 2>/dev/null; then feat="--features cache"; fi
  [ "$id" = C15 ] && feat="--features shared-core"
  MUT_ROOT=$ROOT selftest/confirm_mutant.sh "$id" "$n" $feat
done; done
