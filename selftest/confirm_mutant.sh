#!/bin/bash
# selftest/confirm_mutant.sh <ID> <n> [cargo feature args...]
# Independent confirmation of a seeded change in its scratch worktree /tmp/mut/<ID>:
#   demo passes on the unmodified tree, the existing suite passes with the change,
#   the demo fails with the change. Prints a JSON line with the three outcomes.
set -u
ID="$1"; N="$2"; shift 2
W=${MUT_ROOT:-/tmp/mut}/$ID
cd "$W" || exit 2
export CARGO_NET_OFFLINE=true
git checkout -q -- src
mkdir -p _demos
# move every demo aside, work with one at a time
for f in tests/demo_*.rs; do [ -e "$f" ] && mv "$f" _demos/; done
DEMO_SRC=_out/demo$N.rs
cp "$DEMO_SRC" tests/demo_${ID}_$N.rs
run_demo() { timeout 1800 cargo test --offline "$@" --test demo_${ID}_$N > _demos/run.log 2>&1; echo $?; }
clean_rc=$(run_demo "$@")
git apply _out/mutant$N.diff || { echo "{\"id\":\"$ID\",\"n\":$N,\"error\":\"patch does not apply\"}"; exit 1; }
mut_rc=$(run_demo "$@")
mv tests/demo_${ID}_$N.rs _demos/
timeout 1800 cargo test --workspace --no-fail-fast --offline > _demos/suite.log 2>&1
suite_rc=$?
passed=$(grep -E "^test result: ok" _demos/suite.log | sed -E 's/.* ([0-9]+) passed.*/\1/' | paste -sd+ | bc)
failed=$(grep -E "^test result" _demos/suite.log | sed -E 's/.* ([0-9]+) failed.*/\1/' | paste -sd+ | bc)
git checkout -q -- src
echo "{\"id\":\"$ID\",\"n\":$N,\"demo_on_clean_rc\":$clean_rc,\"demo_with_mutant_rc\":$mut_rc,\"suite_with_mutant_rc\":$suite_rc,\"suite_passed\":${passed:-0},\"suite_failed\":${failed:-0}}"
