#!/bin/bash
# selftest/run_mutant.sh <patch.diff> <ID> [<ID>...]
# Applies a seeded change to /repo, runs the quick checks named, prints one line per check
# (CAUGHT / MISSED / INCONCLUSIVE + first signature), and ALWAYS restores /repo afterwards.
# Not part of any registered check. Evidence/replays of these runs go to a scratch directory.
set -u
PATCH="$(realpath "$1")"; shift
cd /verif
if ! git -C /repo diff --quiet; then echo "refusing: /repo has uncommitted changes"; exit 2; fi
restore() { git -C /repo checkout -- . ; }
trap restore EXIT
git -C /repo apply "$PATCH" || { echo "patch does not apply"; exit 2; }
OUT=/verif/scratch/mutant-out-$$
mkdir -p "$OUT"
for ID in "$@"; do
  HCVERIF_OUT_DIR="$OUT" VERIF_SEED="${VERIF_SEED:-1}" timeout 1500 ./check "$ID" quick > "$OUT/$ID.log" 2>&1
  rc=$?
  sig=$(grep -m1 "signature:" "$OUT/$ID.log" | sed 's/^ *signature: //' | cut -c1-140)
  case $rc in
    0) echo "$ID MISSED (exit 0)";;
    1) echo "$ID CAUGHT: $sig";;
    *) echo "$ID INCONCLUSIVE/other (exit $rc): $(grep -m1 -E 'INCONCLUSIVE|error' "$OUT/$ID.log" | cut -c1-160)";;
  esac
done
rm -rf "$OUT"
