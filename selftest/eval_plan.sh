#!/bin/bash
# selftest/eval_plan.sh <logfile> < plan   (plan lines: "<ID> <n> <check IDs...>")
# Runs run_mutant_scratch.sh for every line of the plan; MUT_ROOT = where the sub-agents' outputs
# are (<MUT_ROOT>/<ID>/_out/mutant<n>.diff). Honours SCRATCH_TAG and VERIF_SRC of that script.
LOG=$1
ROOT=${MUT_ROOT:-/tmp/mut}
while read id n checks; do
  echo "=== $id mutant$n" >> "$LOG"
  /verif/selftest/run_mutant_scratch.sh "$ROOT/$id/_out/mutant$n.diff" $checks >> "$LOG" 2>&1
done
