#!/bin/bash
# selftest/run_mutant_scratch.sh <patch.diff> <ID>...
# Like run_mutant.sh, but never touches /repo: the patch is applied to a scratch worktree
# (/tmp/mw3/repo) and the checks run from a scratch copy of /verif (/tmp/mh3) whose harness
# depends on that worktree. Used while something else (a thorough sweep) is building from /repo.
set -u
PATCH="$(realpath "$1")"; shift
T=${SCRATCH_TAG:-}; W=/tmp/mw3$T/repo; H=/tmp/mh3$T
if [ ! -d $W ]; then mkdir -p /tmp/mw3$T; git -C /repo worktree add -q --detach $W HEAD || exit 2; cp /repo/Cargo.lock $W/Cargo.lock 2>/dev/null; fi
mkdir -p $H
SRC=${VERIF_SRC:-/verif}
rsync -a --delete --exclude 'target*' $SRC/harness $H/ && cp $SRC/known_findings.json $SRC/check $SRC/crosscheck.py $H/
sed -i "s#path = \"/repo\"#path = \"$W\"#" $H/harness/Cargo.toml
sed -i "s#cp /repo/Cargo.lock#cp $W/Cargo.lock#" $H/check
git -C $W checkout -q -- . ; git -C $W checkout -q --detach "$(git -C /repo rev-parse HEAD)"
restore() { git -C $W checkout -q -- . ; }
trap restore EXIT
git -C $W apply "$PATCH" || { echo "patch does not apply"; exit 2; }
OUT=$H/out-$$; mkdir -p "$OUT"
cd $H
for ID in "$@"; do
  HCVERIF_OUT_DIR="$OUT" VERIF_SEED="${VERIF_SEED:-1}" timeout 1800 ./check "$ID" quick > "$OUT/$ID.log" 2>&1
  rc=$?
  sig=$(grep -m1 "signature:" "$OUT/$ID.log" | sed 's/^ *signature: //' | cut -c1-140)
  case $rc in
    0) echo "$ID MISSED (exit 0)";;
    1) echo "$ID CAUGHT: $sig";;
    *) echo "$ID INCONCLUSIVE/other (exit $rc): $(grep -m1 -E 'INCONCLUSIVE|error' "$OUT/$ID.log" | cut -c1-160)";;
  esac
done
rm -rf "$OUT"
