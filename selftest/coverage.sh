#!/bin/bash
# selftest/coverage.sh [secs-per-property]
# Informational (not a registered check): line/region coverage of /repo/src reached by the quick
# workloads of all 15 monitors, measured with -Cinstrument-coverage + llvm-cov from the nightly
# toolchain. Writes /verif/coverage/SUMMARY.txt and UNCOVERED.txt.
set -u
cd /verif
SECS="${1:-6}"
export CARGO_NET_OFFLINE=true
SYS=$(rustc +nightly --print sysroot)
TOOLS=$SYS/lib/rustlib/x86_64-unknown-linux-gnu/bin
cp /repo/Cargo.lock harness/Cargo.lock
( cd harness && RUSTFLAGS="-Cinstrument-coverage" cargo +nightly build --release --offline --target-dir target-cov ) > scratch/cov-build.log 2>&1 || { tail -20 scratch/cov-build.log; exit 2; }
BIN=harness/target-cov/release/hcverif
W=scratch/cov; rm -rf $W; mkdir -p $W coverage
for p in C01 C02 C03 C04 C05 C06 C07 C08 C09 C10 C11 C12 C13 C14 C15; do
  for sh in 0 5 11; do
    LLVM_PROFILE_FILE="$W/$p-$sh-%p.profraw" HCVERIF_NO_RLIMIT=1 VERIF_RANDOM_SECS=$SECS HCVERIF_OUT_DIR=$PWD/$W \
      timeout 600 $BIN worker $p --tier quick --seed 1 --shard $sh --nshards 16 --out $W/$p-$sh > /dev/null 2>&1 &
  done
  wait
done
$TOOLS/llvm-profdata merge -sparse $W/*.profraw -o $W/merged.profdata || exit 2
$TOOLS/llvm-cov report $BIN -instr-profile=$W/merged.profdata --ignore-filename-regex='(registry|rustc|harness/src)' > coverage/SUMMARY.txt 2>/dev/null
$TOOLS/llvm-cov show $BIN -instr-profile=$W/merged.profdata --ignore-filename-regex='(registry|rustc|harness/src)' --show-line-counts-or-regions 2>/dev/null \
  | awk '/^\/repo\/src/ {f=$0} /^ +[0-9]+\| +0\|/ {print f " " $0}' | cut -c1-200 > coverage/UNCOVERED.txt
echo "shards 0,5,11 of 16 per property, ${SECS}s of random cases each, quick tier, seed 1" > coverage/README.txt
rm -rf $W
tail -40 coverage/SUMMARY.txt
