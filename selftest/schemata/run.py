#!/usr/bin/env python3
"""selftest/schemata/run.py - first-order mutation sweep with compiled-in, run-time switched
mutants ("mutant schemata"). Calibration only; never part of a registered check and never
touches /repo: the rewritten source lives in a scratch worktree (/tmp/schem/repo) and the checks
run from a scratch copy of the harness (/tmp/schem/h) that depends on that worktree.

  run.py setup                     create worktree, rewrite src, build tests + harness
  run.py sweep <out.jsonl> <n> [seed] [file-substring]   run n sampled mutants
  run.py one <id> [checks...]      run one mutant verbosely

A mutant is first run against the existing test suite (killed there = uninteresting), then
against the quick checks of the properties anchored in its file, cheapest first, stopping at the
first check that reports a violation."""
import json, os, random, subprocess, sys, time, shutil

ROOT = "/tmp/schem"
W = f"{ROOT}/repo"
H = f"{ROOT}/h"
CAT = f"{ROOT}/catalogue.jsonl"
TOOL = "/verif/selftest/schemata/target/release/hcschemata"
ENV = dict(os.environ, CARGO_NET_OFFLINE="true", HCVERIF_HANG_SECS=os.environ.get("HCVERIF_HANG_SECS", "60"))

FILE_CHECKS = [
    ("bitfield/", ["C01", "C08", "C06", "C03"]),
    ("oplog/", ["C01", "C06", "C02", "C07", "C12", "C10"]),
    ("encoding.rs", ["C11", "C06", "C01", "C03"]),
    ("common/node.rs", ["C11", "C03", "C05", "C04"]),
    ("common/peer.rs", ["C11", "C03", "C04"]),
    ("common/cache.rs", ["C14", "C03"]),
    ("common/", ["C01", "C10", "C03"]),
    ("tree/", ["C03", "C05", "C04", "C09", "C01", "C14"]),
    ("core.rs", ["C01", "C03", "C13", "C08", "C12", "C10", "C02", "C04", "C09", "C06"]),
    ("storage/", ["C01", "C10", "C14", "C08"]),
    ("data/", ["C01", "C03", "C14"]),
    ("crypto/", ["C05", "C04", "C12", "C06"]),
    ("replication/", ["C13", "C15"]),
    ("builder.rs", ["C12", "C14", "C01"]),
    ("", ["C01", "C03"]),
]


def sh(cmd, cwd=None, env=None, timeout=None):
    try:
        p = subprocess.run(cmd, shell=True, executable="/bin/bash", cwd=cwd, env=env or ENV, stdout=subprocess.PIPE, stderr=subprocess.STDOUT, timeout=timeout, text=True, errors="replace")
        return p.returncode, p.stdout
    except subprocess.TimeoutExpired as e:
        return 124, (e.stdout or b"").decode(errors="replace") if isinstance(e.stdout, bytes) else (e.stdout or "")


def setup():
    os.makedirs(ROOT, exist_ok=True)
    if not os.path.isdir(W):
        sh(f"git -C /repo worktree add -q --detach {W} HEAD")
    sh(f"git -C {W} checkout -q -- . ; rm -f {W}/src/hcmut.rs; git -C {W} checkout -q --detach $(git -C /repo rev-parse HEAD); cp /repo/Cargo.lock {W}/Cargo.lock")
    os.makedirs(f"{ROOT}/.cargo", exist_ok=True)
    open(f"{ROOT}/.cargo/config.toml", "w").write('[build]\nrustflags = ["-Aunused_parens", "-Aunused_braces", "-Aarithmetic_overflow", "-Aunconditional_panic", "-Aunused_comparisons", "-Aunused"]\n[net]\noffline = true\n')
    rc, out = sh(f"{TOOL} {W}/src {CAT} && rustfmt --edition 2021 {W}/src/lib.rs")
    print(out.strip())
    rc, out = sh("cargo test --offline --workspace --no-run 2>&1 | tail -3", cwd=W, timeout=3600)
    print(out)
    os.makedirs(H, exist_ok=True)
    sh(f"rsync -a --delete --exclude 'target*' /verif/harness {H}/ && cp /verif/known_findings.json /verif/check /verif/crosscheck.py {H}/")
    sh(f"sed -i 's#path = \"/repo\"#path = \"{W}\"#' {H}/harness/Cargo.toml; sed -i 's#cp /repo/Cargo.lock#cp {W}/Cargo.lock#' {H}/check")
    rc, out = sh("mkdir -p scratch evidence replays; cp ../repo/Cargo.lock harness/Cargo.lock; cd harness && cargo build --release --offline 2>&1 | tail -2 && cargo build --offline 2>&1 | tail -2", cwd=H, timeout=3600)
    print(out)
    # sanity: with no mutant active the suite and one check must be green
    rc, out = sh("cargo test --offline --workspace --no-fail-fast 2>&1 | grep -E '^test result' ", cwd=W, timeout=1800)
    print("suite without mutant:", rc, out)


def checks_for(f):
    for pref, cs in FILE_CHECKS:
        if pref in f:
            return cs
    return ["C01"]


def run_tests(mid):
    t = time.time()
    rc, out = sh("timeout 900 cargo test --offline --workspace --no-fail-fast 2>&1 | grep -E '^test result|FAILED|panicked|timed out' | head -20; exit ${PIPESTATUS[0]}", cwd=W, env=dict(ENV, HCMUT=str(mid)), timeout=1000)
    return rc, out, time.time() - t


def run_check(mid, cid):
    outdir = f"{H}/out-{mid}-{cid}"
    os.makedirs(outdir, exist_ok=True)
    t = time.time()
    rc, out = sh(f"timeout 1500 ./check {cid} quick", cwd=H, env=dict(ENV, HCMUT=str(mid), HCVERIF_OUT_DIR=outdir, VERIF_SEED=os.environ.get("VERIF_SEED", "1")), timeout=1600)
    sig = ""
    for l in out.splitlines():
        if "signature:" in l:
            sig = l.split("signature:", 1)[1].strip()[:140]
            break
    shutil.rmtree(outdir, ignore_errors=True)
    sh(f"rm -f {H}/replays/*.json")
    return rc, sig, time.time() - t, out


def reached(mid, cid):
    """does the check's workload execute the mutated site at all? (probe mode: site reports, stays original)"""
    probe = f"{ROOT}/probe-{mid}"
    if os.path.exists(probe):
        os.remove(probe)
    outdir = f"{H}/out-p{mid}-{cid}"
    os.makedirs(outdir, exist_ok=True)
    sh(f"timeout 900 ./check {cid} quick", cwd=H, env=dict(ENV, HCMUT=str(mid), HCMUT_PROBE=probe, HCVERIF_OUT_DIR=outdir), timeout=1000)
    shutil.rmtree(outdir, ignore_errors=True)
    r = os.path.exists(probe)
    if r:
        os.remove(probe)
    return r


def evaluate(m, only=None, verbose=False):
    """checks first (they are what is being measured); the slow existing suite only classifies survivors"""
    mid = m["id"]
    res = dict(m)
    res["checks"] = []
    res["outcome"] = "survived"
    for cid in (only or checks_for(m["file"])):
        rc, sig, dt, out = run_check(mid, cid)
        o = {0: "MISSED", 1: "CAUGHT"}.get(rc, f"INCONCLUSIVE({rc})")
        res["checks"].append({"check": cid, "outcome": o, "signature": sig, "s": round(dt, 1)})
        if verbose:
            print(cid, o, sig, round(dt, 1))
        if rc == 1:
            res["outcome"] = f"caught_by_{cid}"
            break
    if res["outcome"] == "survived":
        rc, out, dt = run_tests(mid)
        res["tests_rc"] = rc
        res["tests_s"] = round(dt, 1)
        if rc != 0:
            res["outcome"] = "survived_my_checks_but_killed_by_existing_tests"
        res["reached_by"] = [c for c in (only or checks_for(m["file"]))[:3] if reached(mid, c)]
    return res


def main():
    cmd = sys.argv[1]
    if cmd == "setup":
        setup()
        return
    cat = [json.loads(l) for l in open(CAT)]
    if cmd == "one":
        m = next(x for x in cat if x["id"] == int(sys.argv[2]))
        print(json.dumps(evaluate(m, sys.argv[3:] or None, True), indent=1))
        return
    if cmd == "sweep":
        out, n = sys.argv[2], int(sys.argv[3])
        seed = int(sys.argv[4]) if len(sys.argv) > 4 else 1
        sub = sys.argv[5] if len(sys.argv) > 5 else ""
        done = set()
        if os.path.exists(out):
            done = {json.loads(l)["id"] for l in open(out)}
        pool = [m for m in cat if sub in m["file"] and m["id"] not in done]
        random.Random(seed).shuffle(pool)
        with open(out, "a") as f:
            for m in pool[:n]:
                r = evaluate(m)
                f.write(json.dumps(r) + "\n")
                f.flush()
                print(r["id"], r["file"], r["line"], r["op"], r["outcome"], flush=True)


main()
