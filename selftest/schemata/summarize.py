#!/usr/bin/env python3
"""selftest/schemata/summarize.py: writes /verif/seeded/SCHEMATA.md from the sweep logs
(selftest/logs/schemata-r1*.jsonl) and, when present, the site-coverage directory
(/tmp/schem/cover/<check>/<id> = the switch of mutant <id> was evaluated by that check)."""
import glob, json, os, collections

rows = {}
for f in sorted(glob.glob("/verif/selftest/logs/schemata-r1*.jsonl")):
    for l in open(f):
        try:
            d = json.loads(l)
        except Exception:
            continue
        rows[d["id"]] = d
cat = {}
if os.path.exists("/tmp/schem/catalogue.jsonl"):
    for l in open("/tmp/schem/catalogue.jsonl"):
        d = json.loads(l)
        cat[d["id"]] = d
out = ["# First-order mutation sweep (mutant schemata)", "",
       "Tool: `selftest/schemata/` (DESIGN.md 7f). One scratch build of the crate contains every first-order",
       "mutant of the non-test code of `src/`; `HCMUT=<id>` switches one on. Calibration only.", ""]
tot = len(rows)
oc = collections.Counter()
for d in rows.values():
    o = d["outcome"]
    oc["caught by a quick check" if o.startswith("caught_by") else o] += 1
out.append(f"Catalogue: {len(cat) or 'n/a'} mutants; evaluated so far: {tot} (seeded samples over all files plus `oplog/` and `core.rs`).")
out.append("")
out.append("| outcome | mutants |")
out.append("|---|---|")
for k, v in oc.most_common():
    out.append(f"| {k} | {v} |")
out.append("")
byc = collections.Counter(d["outcome"][len("caught_by_"):] for d in rows.values() if d["outcome"].startswith("caught_by"))
out.append("Caught by (first check that reported a violation, cheapest first): " + ", ".join(f"{k} {v}" for k, v in sorted(byc.items())))
out.append("")
out.append("## Mutants that no quick check reported")
out.append("")
out.append("| id | site | change | existing tests | site reached by | judgement |")
out.append("|---|---|---|---|---|---|")
JUDGE = {
    951: "tree truncation / fork machinery: not reachable through the public API (coverage/UNCOVERED.txt)",
    794: "`commit` refusing a non-commitable changeset: `verify_and_apply_proof` checks commitability before (never false there)",
    128: "`last_index_of`: unused by the core (unit tests only)",
    39: "single-bit `DynamicBitfield::set`: unused by the core (unit tests only)",
    104: "`index_of`: unused by the core (unit tests only)",
    391: "flush cadence: no flush after the first operation until 64 KiB of entries - every observation and recovery stays correct (entries are replayed); only C06's certified file hashes pin the cadence (C06 was not in the list for core.rs when this one ran; it is now)",
    648: "`buffer.len() < 9`: differs only for a buffer of exactly 8 bytes, which is no frame either way (length 0 or longer than the buffer) - equivalent",
    266: "cache capacity option ignored: by C14 the capacity must not be observable - equivalent for every property",
    428: "`Hash::from_roots`: dead code (legacy big-endian hash, `#[allow(dead_code)]`)",
    331: "`clear` with start >= end no longer refused: outside C01's quantifier (start < end); the unit tests pin the BadArgument",
    359: "commitability gate in `verify_and_apply_proof`: never false for anything my workloads (or the public API) can produce - the fork gate before it and the verifier catch every non-commitable proof first",
    505: "user-data section of an entry: never present (no API writes user data) - see DESIGN section 6",
    694: "partial flag of a multi-entry append: the crate appends one entry at a time",
    806: "tree truncation: not reachable through the public API",
    886: "seek handling in `create_valueless_proof` inverted: a seek-only request is then answered by a proof without the seek nodes, which a replica accepts (nothing to refuse) and which changes no observation - the port has no public seek call whose result could be wrong; C03 promises acceptance and data, not the content of seek sections. Proof *content* for seeks is pinned only by the unit tests' JS-derived expectations",
    1115: "seek root inside a sibling on the block's path: reached only by block+seek requests whose seek lies elsewhere in the proven sub-tree - the W5 gap closed in round 5 (this mutant ran with the harness copy from before)",
}
for i, d in sorted(rows.items()):
    if d["outcome"].startswith("caught_by"):
        continue
    t = d.get("tests_rc")
    tests = "n/a" if t is None else ("pass" if t == 0 else "fail")
    out.append(f"| {i} | {d['file']}:{d['line']} `{d['fn']}` | {d['op']}: `{d['orig'][:60]}` -> `{d['new'][:40]}` | {tests} | {' '.join(d.get('reached_by') or []) or '-'} | {JUDGE.get(i, 'not analysed')} |")
out.append("")
# site coverage
cov = {}
for c in sorted(glob.glob("/tmp/schem/cover/C*")):
    if os.path.isdir(c):
        cov[os.path.basename(c)] = {int(x) for x in os.listdir(c) if x.isdigit()}
if cov and cat:
    allr = set().union(*cov.values())
    out.append("## Mutation sites whose switch is evaluated by the quick workloads")
    out.append("")
    out.append("(`HCMUT_COVER`: a site counts when the mutated expression / statement is actually evaluated - for a forced condition only when the short-circuit lets the mutation matter.)")
    out.append("")
    out.append(f"All quick checks together: {len(allr & set(cat))} of {len(cat)} sites.")
    out.append("")
    out.append("| check | sites |")
    out.append("|---|---|")
    for c, s in cov.items():
        out.append(f"| {c} | {len(s)} |")
    out.append("")
    byfn = collections.defaultdict(list)
    for i, d in cat.items():
        if i not in allr:
            byfn[(d["file"], d["fn"])].append(i)
    out.append("Sites never evaluated, by function:")
    out.append("")
    for (f, fn), ids in sorted(byfn.items()):
        out.append(f"* {f} `{fn}`: {len(ids)}")
    out.append("")
open("/verif/seeded/SCHEMATA.md", "w").write("\n".join(out) + "\n")
print("\n".join(out[:40]))
