//! Mutant schemata for the calibration of /verif's checks (selftest only, never part of a
//! registered check): rewrites the `src/` tree of a SCRATCH worktree of datrs/hypercore so that
//! every first-order mutant (relational / arithmetic / boolean operator replacement, condition
//! forcing and negation, integer literal +1, statement deletion) is compiled in and switched on
//! at run time by the environment variable HCMUT=<id>. One build, hundreds of mutants.
//!
//! usage: hcschemata <scratch-worktree>/src <catalogue.jsonl> [excluded-ids-file]
use proc_macro2::Span;
use quote::{quote, ToTokens};
use std::collections::HashSet;
use std::io::Write;
use syn::spanned::Spanned;
use syn::visit_mut::{self, VisitMut};
use syn::{BinOp, Expr, Stmt};

struct Mutator {
    file: String,
    next_id: u32,
    excluded: HashSet<u32>,
    cat: Vec<String>,
    fn_stack: Vec<String>,
    in_test: bool,
}

fn has_cfg_test(attrs: &[syn::Attribute]) -> bool {
    attrs.iter().any(|a| {
        let s = a.to_token_stream().to_string();
        s.contains("cfg") && s.contains("test") || s.contains("# [test]") || s.contains("test_utils")
    })
}

impl Mutator {
    /// allocate an id; None if excluded (ids stay stable across regenerations)
    fn alloc(&mut self, span: Span, op: &str, orig: &str, new: &str) -> Option<u32> {
        let id = self.next_id;
        self.next_id += 1;
        if self.excluded.contains(&id) {
            return None;
        }
        let f = self.fn_stack.last().cloned().unwrap_or_default();
        let st = span.start();
        let esc = |s: &str| s.replace('\\', "\\\\").replace('"', "\\\"");
        let o: String = orig.chars().take(160).collect();
        let n: String = new.chars().take(160).collect();
        self.cat.push(format!(
            "{{\"id\":{},\"file\":\"{}\",\"line\":{},\"col\":{},\"fn\":\"{}\",\"op\":\"{}\",\"orig\":\"{}\",\"new\":\"{}\"}}",
            id, self.file, st.line, st.column, esc(&f), op, esc(&o), esc(&n)
        ));
        Some(id)
    }
}

fn bin_replacements(op: &BinOp) -> Vec<(BinOp, &'static str)> {
    use syn::parse_quote as pq;
    match op {
        BinOp::Lt(_) => vec![(pq!(<=), "<="), (pq!(>), ">")],
        BinOp::Le(_) => vec![(pq!(<), "<")],
        BinOp::Gt(_) => vec![(pq!(>=), ">="), (pq!(<), "<")],
        BinOp::Ge(_) => vec![(pq!(>), ">")],
        BinOp::Eq(_) => vec![(pq!(!=), "!=")],
        BinOp::Ne(_) => vec![(pq!(==), "==")],
        BinOp::And(_) => vec![(pq!(||), "||")],
        BinOp::Or(_) => vec![(pq!(&&), "&&")],
        BinOp::Add(_) => vec![(pq!(-), "-")],
        BinOp::Sub(_) => vec![(pq!(+), "+")],
        BinOp::Mul(_) => vec![(pq!(/), "/")],
        BinOp::Div(_) => vec![(pq!(*), "*")],
        BinOp::Rem(_) => vec![(pq!(/), "/")],
        BinOp::Shl(_) => vec![(pq!(>>), ">>")],
        BinOp::Shr(_) => vec![(pq!(<<), "<<")],
        BinOp::BitAnd(_) => vec![(pq!(|), "|")],
        BinOp::BitOr(_) => vec![(pq!(&), "&")],
        _ => vec![],
    }
}

fn short(e: &impl ToTokens) -> String {
    e.to_token_stream().to_string()
}

impl VisitMut for Mutator {
    fn visit_item_mod_mut(&mut self, i: &mut syn::ItemMod) {
        if has_cfg_test(&i.attrs) || i.ident == "tests" || i.ident == "test" {
            return;
        }
        visit_mut::visit_item_mod_mut(self, i);
    }
    fn visit_item_fn_mut(&mut self, i: &mut syn::ItemFn) {
        if has_cfg_test(&i.attrs) || i.sig.constness.is_some() {
            return;
        }
        self.fn_stack.push(i.sig.ident.to_string());
        visit_mut::visit_item_fn_mut(self, i);
        self.fn_stack.pop();
    }
    fn visit_impl_item_fn_mut(&mut self, i: &mut syn::ImplItemFn) {
        if has_cfg_test(&i.attrs) || i.sig.constness.is_some() {
            return;
        }
        self.fn_stack.push(i.sig.ident.to_string());
        visit_mut::visit_impl_item_fn_mut(self, i);
        self.fn_stack.pop();
    }
    // never inside constant contexts, types, patterns, attributes
    fn visit_item_const_mut(&mut self, _: &mut syn::ItemConst) {}
    fn visit_item_static_mut(&mut self, _: &mut syn::ItemStatic) {}
    fn visit_impl_item_const_mut(&mut self, _: &mut syn::ImplItemConst) {}
    fn visit_trait_item_const_mut(&mut self, _: &mut syn::TraitItemConst) {}
    fn visit_item_enum_mut(&mut self, _: &mut syn::ItemEnum) {}
    fn visit_type_mut(&mut self, _: &mut syn::Type) {}
    fn visit_pat_mut(&mut self, _: &mut syn::Pat) {}
    fn visit_generic_argument_mut(&mut self, _: &mut syn::GenericArgument) {}
    fn visit_attribute_mut(&mut self, _: &mut syn::Attribute) {}
    fn visit_expr_repeat_mut(&mut self, i: &mut syn::ExprRepeat) {
        self.visit_expr_mut(&mut i.expr);
    }
    fn visit_expr_range_mut(&mut self, i: &mut syn::ExprRange) {
        visit_mut::visit_expr_range_mut(self, i);
    }

    fn visit_block_mut(&mut self, b: &mut syn::Block) {
        // statement deletion: expression statements (with semicolon) that are calls, method
        // calls, assignments, `?` / `.await` of those
        let mut out = Vec::with_capacity(b.stmts.len());
        for mut s in std::mem::take(&mut b.stmts) {
            let deletable = match &s {
                Stmt::Expr(e, Some(_)) => is_deletable(e),
                _ => false,
            };
            let orig_txt = if deletable { short(&s) } else { String::new() };
            let span = s.span();
            self.visit_stmt_mut(&mut s);
            if deletable {
                if let Some(id) = self.alloc(span, "stmt-delete", &orig_txt, "(deleted)") {
                    let st: Stmt = syn::parse_quote!( if !crate::hcmut::on(#id) { #s } );
                    out.push(st);
                    continue;
                }
            }
            out.push(s);
        }
        b.stmts = out;
    }

    fn visit_expr_mut(&mut self, e: &mut Expr) {
        match e {
            Expr::Binary(b) => {
                let reps = bin_replacements(&b.op);
                if reps.is_empty() {
                    visit_mut::visit_expr_mut(self, e);
                    return;
                }
                let span = b.span();
                let l0 = (*b.left).clone();
                let r0 = (*b.right).clone();
                let orig_txt = short(&*b);
                self.visit_expr_mut(&mut b.left);
                self.visit_expr_mut(&mut b.right);
                let mut cur: Expr = Expr::Binary(b.clone());
                for (op, name) in reps {
                    let new_txt = format!("{} {} {}", short(&l0), name, short(&r0));
                    if let Some(id) = self.alloc(span, "binop", &orig_txt, &new_txt) {
                        cur = syn::parse_quote!( (if crate::hcmut::on(#id) { (#l0) #op (#r0) } else { #cur }) );
                    }
                }
                *e = cur;
            }
            Expr::If(i) => {
                let is_let = matches!(&*i.cond, Expr::Let(_)) || short(&i.cond).contains("let ");
                let span = i.cond.span();
                let orig_txt = short(&i.cond);
                visit_mut::visit_expr_if_mut(self, i);
                if !is_let {
                    let c = (*i.cond).clone();
                    let mut cur: Expr = c;
                    if let Some(id) = self.alloc(span, "cond-true", &orig_txt, "true") {
                        cur = syn::parse_quote!( ((#cur) || crate::hcmut::on(#id)) );
                    }
                    if let Some(id) = self.alloc(span, "cond-false", &orig_txt, "false") {
                        cur = syn::parse_quote!( ((#cur) && !crate::hcmut::on(#id)) );
                    }
                    *i.cond = cur;
                }
            }
            Expr::Unary(u) if matches!(u.op, syn::UnOp::Not(_)) => {
                let span = u.span();
                let orig_txt = short(&*u);
                let inner0 = (*u.expr).clone();
                visit_mut::visit_expr_unary_mut(self, u);
                let cur: Expr = Expr::Unary(u.clone());
                if let Some(id) = self.alloc(span, "not-removed", &orig_txt, &short(&inner0)) {
                    *e = syn::parse_quote!( (if crate::hcmut::on(#id) { (#inner0) } else { #cur }) );
                }
            }
            Expr::Lit(l) => {
                if let syn::Lit::Int(li) = &l.lit {
                    if li.suffix().is_empty() || li.suffix().starts_with('u') || li.suffix().starts_with('i') {
                        let span = l.span();
                        let orig_txt = short(&*l);
                        let lit = l.clone();
                        if let Some(id) = self.alloc(span, "int+1", &orig_txt, &format!("{} + 1", orig_txt)) {
                            *e = syn::parse_quote!( (if crate::hcmut::on(#id) { #lit + 1 } else { #lit }) );
                        }
                    }
                }
            }
            Expr::Macro(_) => {}
            _ => visit_mut::visit_expr_mut(self, e),
        }
    }
}

fn is_deletable(e: &Expr) -> bool {
    match e {
        Expr::Call(_) | Expr::MethodCall(_) => true,
        // plain locals trip definite-initialisation / move analysis when the assignment goes away
        Expr::Assign(a) => !matches!(&*a.left, Expr::Path(_)),
        Expr::Binary(b) => matches!(
            b.op,
            BinOp::AddAssign(_) | BinOp::SubAssign(_) | BinOp::MulAssign(_) | BinOp::BitOrAssign(_) | BinOp::BitAndAssign(_) | BinOp::ShlAssign(_) | BinOp::ShrAssign(_)
        ),
        Expr::Try(t) => is_deletable(&t.expr),
        Expr::Await(a) => is_deletable(&a.base),
        _ => false,
    }
}

fn walk(dir: &std::path::Path, out: &mut Vec<std::path::PathBuf>) {
    let mut es: Vec<_> = std::fs::read_dir(dir).unwrap().map(|e| e.unwrap().path()).collect();
    es.sort();
    for p in es {
        if p.is_dir() {
            walk(&p, out);
        } else if p.extension().map(|x| x == "rs").unwrap_or(false) {
            out.push(p);
        }
    }
}

fn main() {
    let args: Vec<String> = std::env::args().collect();
    let src = std::path::PathBuf::from(&args[1]);
    let cat_path = &args[2];
    let excluded: HashSet<u32> = args
        .get(3)
        .and_then(|p| std::fs::read_to_string(p).ok())
        .map(|s| s.split_whitespace().filter_map(|x| x.parse().ok()).collect())
        .unwrap_or_default();
    let mut files = vec![];
    walk(&src, &mut files);
    let mut m = Mutator { file: String::new(), next_id: 1, excluded, cat: vec![], fn_stack: vec![], in_test: false };
    let _ = m.in_test;
    for p in files {
        let rel = p.strip_prefix(&src).unwrap().to_string_lossy().to_string();
        if rel == "hcmut.rs" || rel == "prelude.rs" {
            continue;
        }
        let txt = std::fs::read_to_string(&p).unwrap();
        let mut ast: syn::File = syn::parse_file(&txt).unwrap_or_else(|e| panic!("{}: {}", rel, e));
        m.file = rel.clone();
        m.visit_file_mut(&mut ast);
        let mut out = quote!(#ast).to_string();
        if rel == "lib.rs" {
            out.push_str("\n#[doc(hidden)] pub mod hcmut;\n");
        }
        std::fs::write(&p, out).unwrap();
    }
    std::fs::write(
        src.join("hcmut.rs"),
        r#"//! run-time switch of the compiled-in first-order mutants (selftest scratch worktrees only)
use std::sync::atomic::{AtomicBool, Ordering};
use std::sync::OnceLock;
static ACTIVE: OnceLock<(u32, Option<String>, Option<String>)> = OnceLock::new();
static SEEN: [AtomicBool; 4096] = [const { AtomicBool::new(false) }; 4096];
/// HCMUT=<id>: that mutant is on. HCMUT_PROBE=<file>: the site only reports that it was reached.
/// HCMUT_COVER=<dir>: every site reports (one empty file per id) that its switch was evaluated.
#[inline]
pub fn on(id: u32) -> bool {
    let (a, probe, cover) = ACTIVE.get_or_init(|| {
        (
            std::env::var("HCMUT").ok().and_then(|s| s.parse().ok()).unwrap_or(0),
            std::env::var("HCMUT_PROBE").ok(),
            std::env::var("HCMUT_COVER").ok(),
        )
    });
    if let Some(dir) = cover {
        if let Some(flag) = SEEN.get(id as usize) {
            if !flag.swap(true, Ordering::Relaxed) {
                let _ = std::fs::OpenOptions::new().create(true).append(true).open(format!("{dir}/{id}"));
            }
        }
    }
    if *a != id {
        return false;
    }
    match probe {
        Some(p) => {
            let _ = std::fs::OpenOptions::new().create(true).append(true).open(p);
            false
        }
        None => true,
    }
}
"#,
    )
    .unwrap();
    let mut f = std::fs::File::create(cat_path).unwrap();
    for l in &m.cat {
        writeln!(f, "{}", l).unwrap();
    }
    eprintln!("{} mutants", m.cat.len());
}
