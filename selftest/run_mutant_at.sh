#!/bin/bash
# selftest/run_mutant_at.sh <verif root> <patch.diff> <ID>...   - like run_mutant.sh but with the
# checks of another checkout of /verif (used to measure what an earlier revision of the checks
# caught). Always restores /repo.
set -u
ROOT="$1"; PATCH="$(realpath "$2")"; shift 2
if ! git -C /repo diff --quiet; then echo "refusing: /repo has uncommitted changes"; exit 2; fi
restore() { git -C /repo checkout -- . ; }
trap restore EXIT
git -C /repo apply "$PATCH" || { echo "patch does not apply"; exit 2; }
OUT=/verif/scratch/mutant-out-$$
mkdir -p "$OUT"
cd "$ROOT"
for ID in "$@"; do
  HCVERIF_OUT_DIR="$OUT" VERIF_SEED="${VERIF_SEED:-1}" timeout 1500 ./check "$ID" quick > "$OUT/$ID.log" 2>&1
  rc=$?
  sig=$(grep -m1 "signature:" "$OUT/$ID.log" | sed 's/^ *signature: //' | cut -c1-140)
  case $rc in
    0) echo "$ID MISSED (exit 0)";;
    1) echo "$ID CAUGHT: $sig";;
    *) echo "$ID INCONCLUSIVE/other (exit $rc): $(grep -m1 -E 'INCONCLUSIVE|error' "$OUT/$ID.log" | cut -c1-160)";;
  esac
done
rm -rf "$OUT"
