#!/usr/bin/env python3
"""Collects the seeded changes produced by the adversary sub-agents (scratch worktrees under
/tmp/mut/<ID>/_out) together with my own confirmation results and the outcomes of my checks into
/verif/seeded/<ID>-<n>/ {patch.diff, demo.rs, notes.md, meta.json}. Only changes that were
confirmed (demo passes on the clean tree, fails with the change, existing suite passes with the
change) are kept."""
import json, os, re, shutil, sys, glob

MUT = os.environ.get("MUT_ROOT", "/tmp/mut")
ROUND = os.environ.get("MUT_ROUND", "1")
OUT = "/verif/seeded"

def load_confirm():
    res = {}
    for f in sorted(glob.glob("/verif/selftest/logs/confirm[0-9]*.log") if ROUND == "1" else glob.glob(f"/verif/selftest/logs/confirm-r{ROUND}-*.log")):
        for line in open(f):
            line = line.strip()
            if line.startswith("{"):
                try:
                    j = json.loads(line)
                    res[(j["id"], j["n"])] = j
                except Exception:
                    pass
    return res

def load_runs():
    """latest outcome per (mutant, check) wins; all runs kept in 'history'"""
    res = {}
    for f in sorted(glob.glob("/verif/selftest/logs/mutrun[0-9]*.log") if ROUND == "1" else glob.glob(f"/verif/selftest/logs/mutrun-r{ROUND}-*.log")):
        cur = None
        for line in open(f):
            m = re.match(r"=== (C\d+) mutant(\d)", line)
            if m:
                cur = (m.group(1), int(m.group(2)))
                continue
            m = re.match(r"(C\d+) (CAUGHT|MISSED|INCONCLUSIVE/other)(.*)", line)
            if m and cur:
                res.setdefault(cur, {}).setdefault(m.group(1), []).append({"outcome": m.group(2), "detail": m.group(3).strip(": ").strip(), "log": os.path.basename(f)})
    return res

def main():
    conf = load_confirm()
    runs = load_runs()
    os.makedirs(OUT, exist_ok=True)
    kept = []
    for (pid, n), c in sorted(conf.items()):
        ok = c.get("demo_on_clean_rc") == 0 and c.get("demo_with_mutant_rc") not in (0, None) and c.get("suite_with_mutant_rc") == 0 and c.get("suite_failed", 1) == 0
        src = f"{MUT}/{pid}/_out"
        if not ok or not os.path.exists(f"{src}/mutant{n}.diff"):
            continue
        d = f"{OUT}/{pid}-{n}" if ROUND == "1" else f"{OUT}/{pid}-r{ROUND}-{n}"
        os.makedirs(d, exist_ok=True)
        shutil.copy(f"{src}/mutant{n}.diff", f"{d}/patch.diff")
        if os.path.exists(f"{src}/demo{n}.rs"):
            shutil.copy(f"{src}/demo{n}.rs", f"{d}/demo.rs")
        notes = ""
        if os.path.exists(f"{src}/notes{n}.md"):
            shutil.copy(f"{src}/notes{n}.md", f"{d}/notes.md")
            notes = open(f"{src}/notes{n}.md").read()
        checks = {}
        for chk, hist in runs.get((pid, n), {}).items():
            checks[chk] = {"latest": hist[-1]["outcome"], "signature": hist[-1]["detail"][:200], "history": [h["outcome"] for h in hist]}
        needs = ""
        hits = [l.strip() for l in notes.splitlines() if re.search(r"(?i)need|manifest|trigger|only (?:when|if)|requires", l)]
        if hits:
            needs = " ".join(" ".join(hits).split())[:700]
        meta = {
            "property_broken": pid,
            "source": "independent sub-agent given only the property text and its own scratch worktree of /repo (HEAD incl. the fix commits)",
            "files": {"patch": "patch.diff", "demonstration": "demo.rs", "author_notes": "notes.md"},
            "needs_to_manifest": needs or "see notes.md",
            "confirmed_by_me": {
                "how": "selftest/confirm_mutant.sh in the scratch worktree: demo on the clean tree, demo with the patch, full existing suite with the patch (demos moved aside)",
                "demo_passes_on_clean_tree": c["demo_on_clean_rc"] == 0,
                "demo_fails_with_change": c["demo_with_mutant_rc"] != 0,
                "existing_suite_passes_with_change": c["suite_with_mutant_rc"] == 0,
                "existing_suite_tests_passed": c.get("suite_passed"),
            },
            "my_checks": checks,
            "how_checks_were_run": ("selftest/run_mutant_scratch.sh: patch applied to a scratch worktree of /repo, ./check <ID> quick (seed 1) from a scratch copy of /verif whose harness depends on that worktree (/repo itself stays untouched); first against the checks as they stood before the round, then against the strengthened ones" if ROUND in ("3", "4", "5") else "selftest/run_mutant.sh: git -C /repo apply patch.diff; ./check <ID> quick (seed 1, evidence redirected to scratch); git -C /repo checkout -- ."),
        }
        json.dump(meta, open(f"{d}/meta.json", "w"), indent=1)
        kept.append((pid, n if ROUND == "1" else f"r{ROUND}-{n}", checks))
    if not kept:
        print("nothing collected (sources gone?) - existing files left untouched")
        return
    # matrix for DESIGN.md
    lines = ["| seeded change | own check | other checks that also caught it | missed by |", "|---|---|---|---|"]
    for pid, n, checks in kept:
        own = checks.get(pid, {}).get("latest", "not run")
        hist = checks.get(pid, {}).get("history", [])
        if len(hist) > 1 and hist[0] != hist[-1]:
            own += f" (first run: {hist[0]}; check strengthened)"
        others = [k for k, v in checks.items() if k != pid and v["latest"] == "CAUGHT"]
        missed = [k for k, v in checks.items() if k != pid and v["latest"] == "MISSED"]
        lines.append(f"| {pid}-{n} | {own} | {' '.join(sorted(others)) or '-'} | {' '.join(sorted(missed)) or '-'} |")
    open(f"{OUT}/MATRIX.md" if ROUND == "1" else f"{OUT}/MATRIX-round{ROUND}.md", "w").write("\n".join(lines) + "\n")
    print("\n".join(lines))

if __name__ == "__main__":
    main()
