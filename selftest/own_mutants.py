#!/usr/bin/env python3
"""My own calibration mutants (DESIGN.md section 7b): small single-site source changes listed per
property, applied to a SCRATCH worktree of /repo (never to /repo itself) and checked with a
scratch copy of the harness that points at that worktree.

usage: own_mutants.py <scratch repo worktree> <scratch verif root with ./check> [name-filter]
For each mutant: apply -> `cargo test --workspace --offline` in the worktree (must still pass,
otherwise the mutant is 'killed-by-existing-tests' and does not count) -> ./check <prop> quick ->
revert. Prints one JSON line per mutant."""
import json, os, subprocess, sys, time

M = []
def mut(name, prop, file, old, new, also=()):
    M.append(dict(name=name, prop=prop, file=file, old=old, new=new, also=list(also)))

# ---------------------------------------------------------------- C01
mut("c01-header-slot-choice-inverted", "C01", "src/oplog/mod.rs",
    "let header: Header = if header_bits[0] == header_bits[1] {",
    "let header: Header = if header_bits[0] != header_bits[1] {", also=["C02", "C06"])
mut("c01-bitfield-flush-offset-in-words", "C01", "src/bitfield/dynamic.rs",
    "*unflushed_id * data.len() as u64,",
    "*unflushed_id * (data.len() / 4) as u64,", also=["C08"])
mut("c01-clear-hole-off-by-one", "C01", "src/core.rs",
    "let start = if let Some(index) = self.bitfield.last_index_of(true, start) {\n            index + 1",
    "let start = if let Some(index) = self.bitfield.last_index_of(true, start) {\n            index", also=["C14"])
mut("c01-data-written-at-post-commit-offset", "C01", "src/core.rs",
    ".append_batch(batch.as_ref(), batch_length, self.tree.byte_length);",
    ".append_batch(batch.as_ref(), batch_length, self.tree.byte_length + (batch.as_ref().len() as u64 / 7));")
mut("c01-contiguous-not-lowered-by-live-clear", "C01", "src/core.rs",
    "if start < self.header.hints.contiguous_length {\n            self.header.hints.contiguous_length = start;",
    "if start + 1 < self.header.hints.contiguous_length {\n            self.header.hints.contiguous_length = start;", also=["C08"])
# ---------------------------------------------------------------- C02
mut("c02-header-before-tree-flush", "C02", "src/core.rs",
    "let infos = self.tree.flush();\n        self.storage.flush_infos(&infos).await?;\n        let infos = self.oplog.flush(&self.header, clear_traces)?;\n        self.storage.flush_infos(&infos).await?;",
    "let infos = self.oplog.flush(&self.header, clear_traces)?;\n        self.storage.flush_infos(&infos).await?;\n        let infos = self.tree.flush();\n        self.storage.flush_infos(&infos).await?;", also=["C10"])
mut("c02-truncate-before-header-write", "C02", "src/oplog/mod.rs",
    "vec![\n                StoreInfo::new_content(Store::Oplog, oplog_slot as u64, &buffer),\n                StoreInfo::new_truncate(Store::Oplog, truncate_index),\n            ]",
    "vec![\n                StoreInfo::new_truncate(Store::Oplog, truncate_index),\n                StoreInfo::new_content(Store::Oplog, oplog_slot as u64, &buffer),\n            ]", also=["C07"])
mut("c02-clear-deletes-data-before-logging", "C02", "src/core.rs",
    "        // Write to oplog\n        let infos_to_flush = self.oplog.clear(start, end)?;\n        self.storage.flush_infos(&infos_to_flush).await?;\n\n        // Set bitfield\n        self.bitfield.set_range(start, end - start, false);",
    "        // Set bitfield\n        self.bitfield.set_range(start, end - start, false);", also=["C01"])
# ---------------------------------------------------------------- C03
mut("c03-missing-nodes-off-by-one", "C03", "src/tree/merkle_tree.rs",
    "                    if value.is_none() {\n                        count += 1;\n                        iter.parent();",
    "                    if value.is_none() {\n                        iter.parent();\n                        if !iter.contains(head) {\n                            count += 1;\n                        }")
mut("c03-commitable-lt-for-upgrades", "C03", "src/tree/merkle_tree.rs",
    "changeset.original_tree_length == self.length\n        } else {",
    "changeset.original_tree_length < self.length\n        } else {")
mut("c03-additional-upgrade-proof-omitted", "C03", "src/tree/merkle_tree.rs",
    "            if head > to {\n                if let Either::Left(new_instructions) =",
    "            if head > to + 2 {\n                if let Either::Left(new_instructions) =")
# ---------------------------------------------------------------- C04
mut("c04-root-comparison-removed", "C04", "src/tree/merkle_tree.rs",
    "if verified_block_root_node.hash != unverified_block_root_node.hash {",
    "if verified_block_root_node.hash.len() != unverified_block_root_node.hash.len() {")
mut("c04-fork-gate-removed", "C04", "src/core.rs",
    "if proof.fork != self.tree.fork {\n            return Ok(false);\n        }",
    "if proof.fork < self.tree.fork {\n            return Ok(false);\n        }")
mut("c04-hash-compared-on-prefix", "C04", "src/tree/merkle_tree.rs",
    "if verified_block_root_node.hash != unverified_block_root_node.hash {",
    "if verified_block_root_node.hash[..16] != unverified_block_root_node.hash[..16] {")
mut("c04-signature-skipped-without-additional", "C04", "src/tree/merkle_tree.rs",
    "    changeset.fork = fork;\n    changeset.verify_and_set_signature(&upgrade.signature, public_key)?;",
    "    changeset.fork = fork;\n    if !extra.is_empty() || upgrade.signature.len() != 64 {\n        changeset.verify_and_set_signature(&upgrade.signature, public_key)?;\n    } else {\n        let s = ed25519_dalek::Signature::try_from(&upgrade.signature[..]).unwrap();\n        changeset.hash = Some(changeset.hash());\n        changeset.signature = Some(s);\n    }")
# ---------------------------------------------------------------- C05 / C06 (self-consistent format changes)
mut("c05-length-fork-swapped-in-signable", "C05", "src/crypto/hash.rs",
    "            length.as_fixed_width(),\n            fork.as_fixed_width()",
    "            fork.as_fixed_width(),\n            length.as_fixed_width()", also=["C06"])
mut("c05-parent-hash-children-swapped", "C05", "src/crypto/hash.rs",
    "        hasher.update(PARENT_TYPE);\n        hasher.update(&size);\n        hasher.update(node1.hash());\n        hasher.update(node2.hash());",
    "        hasher.update(PARENT_TYPE);\n        hasher.update(&size);\n        hasher.update(node2.hash());\n        hasher.update(node1.hash());", also=["C06"])
mut("c06-entry-flag-bits-permuted-consistently", "C06", "src/oplog/entry.rs",
    None, None)  # special: handled below
mut("c06-bitfield-words-big-endian", "C06", "src/bitfield/fixed.rs",
    None, None)  # special
mut("c06-contiguous-hint-not-stored", "C06", "src/oplog/header.rs",
    "Ok(map_encode!(buffer, self.reorgs, self.contiguous_length))",
    "Ok(map_encode!(buffer, self.reorgs, 0u64.min(self.contiguous_length)))", also=["C08", "C01"])
# ---------------------------------------------------------------- C07
mut("c07-zero-length-leader-accepted", "C07", "src/oplog/mod.rs",
    "if len == 0 || data_buff.len() < len {",
    "if data_buff.len() < len {", also=["C06"])
# ---------------------------------------------------------------- C08
mut("c08-contiguous-no-forward-scan", "C08", "src/core.rs",
    "        c = end;\n        while bitfield.get(c) {\n            c += 1;\n        }",
    "        c = end;")
mut("c08-contiguous-update-lt", "C08", "src/core.rs",
    "} else if c <= end && c >= bitfield_update.start {",
    "} else if c < end && c >= bitfield_update.start {")
mut("c08-page-index-32767", "C08", "src/bitfield/dynamic.rs",
    "    pub(crate) fn get(&self, index: u64) -> bool {\n        let j = index & (DYNAMIC_BITFIELD_PAGE_SIZE as u64 - 1);\n        let i = (index - j) / DYNAMIC_BITFIELD_PAGE_SIZE as u64;",
    "    pub(crate) fn get(&self, index: u64) -> bool {\n        let j = index & (DYNAMIC_BITFIELD_PAGE_SIZE as u64 - 1);\n        let i = (index - j) / (DYNAMIC_BITFIELD_PAGE_SIZE as u64 - 1);")
# ---------------------------------------------------------------- C09
mut("c09-upgrade-bound-guard-removed", "C09", "src/tree/merkle_tree.rs",
    "if from >= to || to > head {",
    "if from >= to {")
mut("c09-nodequeue-bounds-check-removed", "C09", "src/tree/merkle_tree.rs",
    "        if self.i >= self.nodes.len() {\n            return Err(HypercoreError::InvalidOperation {\n                context: format!(\"Expected node {index}, got (nil)\"),\n            });\n        }\n",
    "")
# ---------------------------------------------------------------- C10
mut("c10-bitfield-flush-error-swallowed", "C10", "src/core.rs",
    "let infos = self.bitfield.flush();\n        self.storage.flush_infos(&infos).await?;",
    "let infos = self.bitfield.flush();\n        let _ = self.storage.flush_infos(&infos).await;", also=["C02"])
mut("c10-data-write-error-swallowed", "C10", "src/core.rs",
    "            self.storage.flush_info(info).await?;\n\n            // Append the changeset to the Oplog",
    "            let _ = self.storage.flush_info(info).await;\n\n            // Append the changeset to the Oplog")
# ---------------------------------------------------------------- C11
mut("c11-request-upgrade-fields-swapped-consistently", "C11", "src/encoding.rs",
    None, None)  # special
mut("c11-data-seek-size-forgets-nodes-prefix", "C11", "src/encoding.rs",
    "Ok(sum_encoded_size!(self.bytes, self.nodes))",
    "Ok(sum_encoded_size!(self.bytes, self.nodes) - if self.nodes.len() > 252 { 2 } else { 0 })")
# ---------------------------------------------------------------- C12
mut("c12-clear-traces-false", "C12", "src/core.rs",
    "self.flush_bitfield_and_tree_and_oplog(true).await?;",
    "self.flush_bitfield_and_tree_and_oplog(false).await?;")
mut("c12-builder-gate-removed", "C12", "src/core.rs",
    "            if options.key_pair.is_some() {\n                return Err(HypercoreError::BadArgument {",
    "            if options.key_pair.is_some() && false {\n                return Err(HypercoreError::BadArgument {")
mut("c12-zero-padding-dropped", "C12", "src/oplog/mod.rs",
    "        if clear_traces {\n            size = HEADER_SIZE;\n        }",
    "        if clear_traces && size > HEADER_SIZE {\n            size = HEADER_SIZE;\n        }")
# ---------------------------------------------------------------- C13
mut("c13-have-length-off-by-one", "C13", "src/replication/events.rs",
    "            length: *length,",
    "            length: *length + if *length > 2 { 1 } else { 0 },")
mut("c13-get-event-for-held-blocks", "C13", "src/core.rs",
    None, None)  # special
mut("c13-no-get-event-beyond-length", "C13", "src/core.rs",
    "                self.events.send_on_get(index);",
    "                if index < self.tree.length {\n                    self.events.send_on_get(index);\n                }")
mut("c13-events-before-flush", "C13", "src/core.rs",
    None, None)  # special
# ---------------------------------------------------------------- C14
mut("c14-cache-keyed-off-by-one", "C14", "src/tree/merkle_tree.rs",
    "node_cache.insert(node.index, node.clone())",
    "node_cache.insert(node.index + if node.index > 40 { 2 } else { 0 }, node.clone())")
# ---------------------------------------------------------------- C15
mut("c15-get-has-then-read-under-two-locks", "C15", "src/replication/shared_core.rs",
    "            let mut core = self.0.lock().await;\n            Ok(core.get(index).await?)",
    "            let held = { self.0.lock().await.has(index) };\n            if !held {\n                return Ok(None);\n            }\n            let mut core = self.0.lock().await;\n            Ok(core.get(index).await?)")
mut("c15-append-outcome-read-after-unlock", "C15", "src/replication/shared_core.rs",
    "            let mut core = self.0.lock().await;\n            Ok(core.append(data).await?)",
    "            {\n                let mut core = self.0.lock().await;\n                core.append(data).await?;\n            }\n            let i = self.0.lock().await.info();\n            Ok(AppendOutcome { length: i.length, byte_length: i.byte_length })")

# ---------------------------------------------------------------- second round (replacements for mutants that turned out equivalent / invalid)
mut("r2-c08-contiguous-no-forward-scan", "C08", "src/core.rs",
    "        c = end;\n        while bitfield.get(c) {\n            c += 1;\n        }",
    "        c = end;\n        let _ = bitfield;", also=["C01", "C03"])
mut("r2-c15-info-under-two-lock-acquisitions", "C15", "src/replication/shared_core.rs",
    "            let core = &self.0.lock().await;\n            core.info()\n        }",
    "            let a = { self.0.lock().await.info() };\n            let b = { self.0.lock().await.info() };\n            Info { length: a.length, byte_length: b.byte_length, contiguous_length: a.contiguous_length, fork: a.fork, writeable: a.writeable }\n        }")
mut("r2-c10-unwrap-on-length-query", "C10", "src/storage/mod.rs",
    "                        None => storage.len().await.map_err(map_random_access_err)?,",
    "                        None => storage.len().await.unwrap(),")
mut("r2-c06-node-size-after-hash", "C06", "src/tree/merkle_tree.rs", None, None, also=["C05"])
mut("r2-c06-partial-and-header-bits-swapped", "C06", "src/oplog/mod.rs", None, None, also=["C02"])
mut("r2-c07-short-buffer-check-removed", "C07", "src/oplog/mod.rs",
    "        if buffer.len() < 8 {\n            return Ok(None);\n        }\n        let ((stored_checksum, combined), data_buff) =",
    "        let ((stored_checksum, combined), data_buff) =", also=["C02"])
mut("r2-c02-clear-logs-after-deleting-data", "C02", "src/core.rs", None, None, also=["C10"])
mut("r2-c01-bitfield-skips-empty-tail-block", "C01", "src/core.rs",
    "                length: changeset.batch_length,\n            };\n            let outcome = self.oplog.append_changeset(",
    "                length: changeset.batch_length - if batch.as_ref().last().map(|d| d.as_ref().is_empty()).unwrap_or(false) && changeset.batch_length > 1 { 1 } else { 0 },\n            };\n            let outcome = self.oplog.append_changeset(", also=["C13", "C08"])
mut("r2-c13-upgrade-event-on-every-accepted-proof", "C13", "src/core.rs",
    "            if proof.upgrade.is_some() {\n                // Notify replicator if we receieved an upgrade",
    "            if proof.upgrade.is_some() || proof.block.is_some() {\n                // Notify replicator if we receieved an upgrade")
mut("r2-c04-verify-accepts-on-signature-error-for-short-upgrades", "C04", "src/tree/merkle_tree_changeset.rs",
    "        verify(public_key, &self.signable(&hash), Some(&signature))?;",
    "        let r = verify(public_key, &self.signable(&hash), Some(&signature));\n        if self.length > 2 {\n            r?;\n        }")

def special(name, src):
    if name == "c06-entry-flag-bits-permuted-consistently":
        # tree-upgrade bit 4 <-> bitfield bit 8, in encode and decode
        return src.replace("flags |= 4;", "flags |= 0x40;").replace("flags |= 8;", "flags |= 4;").replace("flags |= 0x40;", "flags |= 8;") \
                  .replace("if flags & 4 != 0 {", "if flags & 0x40 != 0 {").replace("if flags & 8 != 0 {", "if flags & 4 != 0 {").replace("if flags & 0x40 != 0 {", "if flags & 8 != 0 {")
    if name == "c06-bitfield-words-big-endian":
        return src.replace("let bytes = &elem.to_le_bytes();", "let bytes = &elem.to_be_bytes();") \
                  .replace("let value: u32 = (data[i] as u32)\n                    | ((data[i + 1] as u32) << 8)\n                    | ((data[i + 2] as u32) << 16)\n                    | ((data[i + 3] as u32) << 24);",
                           "let value: u32 = (data[i + 3] as u32)\n                    | ((data[i + 2] as u32) << 8)\n                    | ((data[i + 1] as u32) << 16)\n                    | ((data[i] as u32) << 24);")
    if name == "c11-request-upgrade-fields-swapped-consistently":
        return src.replace("Ok(map_encode!(buffer, self.start, self.length))", "Ok(map_encode!(buffer, self.length, self.start))") \
                  .replace("let ((start, length), rest) = map_decode!(buffer, [u64, u64]);\n        Ok((RequestUpgrade { start, length }, rest))",
                           "let ((length, start), rest) = map_decode!(buffer, [u64, u64]);\n        Ok((RequestUpgrade { start, length }, rest))")
    if name == "c13-get-event-for-held-blocks":
        return src.replace("        let byte_range = self.byte_range(index, None).await?;\n        if byte_range.length == 0 {",
                           "        let byte_range = self.byte_range(index, None).await?;\n        #[cfg(feature = \"replication\")]\n        if index % 5 == 4 {\n            self.events.send_on_get(index);\n        }\n        if byte_range.length == 0 {")
    if name == "c13-events-before-flush":
        # announce the append before the periodic flush (so a failing flush has already announced)
        a = "            // Now ready to flush\n            if self.should_flush_bitfield_and_tree_and_oplog() {\n                self.flush_bitfield_and_tree_and_oplog(false).await?;\n            }\n\n            #[cfg(feature = \"replication\")]\n            {\n                let _ = self.events.send(crate::replication::events::DataUpgrade {});\n                let _ = self\n                    .events\n                    .send(crate::replication::events::Have::from(&bitfield_update));\n            }"
        b = "            #[cfg(feature = \"replication\")]\n            {\n                let _ = self.events.send(crate::replication::events::DataUpgrade {});\n                let _ = self\n                    .events\n                    .send(crate::replication::events::Have::from(&bitfield_update));\n            }\n\n            // Now ready to flush\n            if self.should_flush_bitfield_and_tree_and_oplog() {\n                self.flush_bitfield_and_tree_and_oplog(false).await?;\n            }"
        assert a in src
        return src.replace(a, b)
    if name == "r2-c06-node-size-after-hash":
        a = "                Ok::<Box<[u8]>, EncodingError>(to_encoded_bytes!(\n                    node.length.as_fixed_width(),\n                    hash\n                ))"
        b = "                Ok::<Box<[u8]>, EncodingError>(to_encoded_bytes!(\n                    hash,\n                    node.length.as_fixed_width()\n                ))"
        assert a in src
        src = src.replace(a, b)
        a = "    let len_buf = &data[..8];\n    let hash = &data[8..];"
        b = "    let len_buf = &data[32..];\n    let hash = &data[..32];"
        assert a in src
        return src.replace(a, b)
    if name == "r2-c06-partial-and-header-bits-swapped":
        a = "        let header_bit = combined & 1 == 1;\n        let partial_bit = combined & 2 == 2;"
        b = "        let header_bit = combined & 2 == 2;\n        let partial_bit = combined & 1 == 1;"
        assert a in src
        src = src.replace(a, b)
        a = "    let partial_bit: u32 = if partial_bit { 2 } else { 0 };\n    let header_bit: u32 = if header_bit { 1 } else { 0 };"
        b = "    let partial_bit: u32 = if partial_bit { 1 } else { 0 };\n    let header_bit: u32 = if header_bit { 2 } else { 0 };"
        assert a in src
        return src.replace(a, b)
    if name == "r2-c02-clear-logs-after-deleting-data":
        a = "        // Write to oplog\n        let infos_to_flush = self.oplog.clear(start, end)?;\n        self.storage.flush_infos(&infos_to_flush).await?;\n\n        // Set bitfield"
        assert a in src
        src = src.replace(a, "        // Set bitfield")
        a = "        // Clear blocks\n        let info_to_flush = self.block_store.clear(clear_offset, clear_length);\n        self.storage.flush_info(info_to_flush).await?;"
        assert a in src
        # the requested range is logged only after the bytes are gone
        return src.replace(a, a + "\n\n        // Write to oplog\n        let infos_to_flush = self.oplog.clear(logged_start, logged_end)?;\n        self.storage.flush_infos(&infos_to_flush).await?;").replace("        // Set bitfield\n        self.bitfield.set_range(start, end - start, false);", "        let (logged_start, logged_end) = (start, end);\n        // Set bitfield\n        self.bitfield.set_range(start, end - start, false);")
    raise SystemExit("no special for " + name)

def sh(cmd, cwd, timeout):
    t = time.time()
    try:
        p = subprocess.run(cmd, cwd=cwd, shell=True, stdout=subprocess.PIPE, stderr=subprocess.STDOUT, timeout=timeout, text=True)
        return p.returncode, p.stdout, time.time() - t
    except subprocess.TimeoutExpired as e:
        return 124, (e.stdout or "") if isinstance(e.stdout, str) else "", time.time() - t

def main():
    repo, vroot = sys.argv[1], sys.argv[2]
    flt = sys.argv[3] if len(sys.argv) > 3 else ""
    done = set()
    if len(sys.argv) > 4 and os.path.exists(sys.argv[4]):
        for l in open(sys.argv[4]):
            try:
                done.add(json.loads(l)["name"])
            except Exception:
                pass
    env = "CARGO_NET_OFFLINE=true HCVERIF_OUT_DIR=%s/out " % vroot
    for m in M:
        if (flt and flt not in m["name"]) or m["name"] in done:
            continue
        path = os.path.join(repo, m["file"])
        orig = open(path).read()
        if m["old"] is None:
            new = special(m["name"], orig)
        else:
            if m["old"] not in orig:
                print(json.dumps({"name": m["name"], "error": "anchor not found"})); sys.stdout.flush(); continue
            new = orig.replace(m["old"], m["new"], 1)
        if new == orig:
            print(json.dumps({"name": m["name"], "error": "no change"})); sys.stdout.flush(); continue
        open(path, "w").write(new)
        res = {"name": m["name"], "prop": m["prop"], "file": m["file"]}
        try:
            rc, out, dt = sh("cargo test --workspace --no-fail-fast --offline 2>&1 | grep -E '^test result|error(\\[|:)' | head -20", repo, 1800)
            failed = ("FAILED" in out) or ("error" in out and "test result" not in out) or ("failed" in out and " 0 failed" not in out.replace("; 0 failed", " 0 failed"))
            passed = sum(int(x.split(" passed")[0].split()[-1]) for x in out.splitlines() if x.startswith("test result") and " passed" in x)
            nfailed = sum(int(x.split(" failed")[0].split()[-1]) for x in out.splitlines() if x.startswith("test result") and " failed" in x)
            res["existing_tests"] = {"passed": passed, "failed": nfailed, "compiles": "test result" in out}
            if not res["existing_tests"]["compiles"] or nfailed > 0:
                res["verdict"] = "not-a-valid-mutant (killed by the existing suite or does not compile)"
            else:
                checks = {}
                for chk in [m["prop"]] + m["also"]:
                    rc, out, dt = sh(env + "timeout 1500 ./check %s quick" % chk, vroot, 1700)
                    sig = ""
                    for l in out.splitlines():
                        if "signature:" in l:
                            sig = l.split("signature:")[1].strip()[:150]; break
                    checks[chk] = {"exit": rc, "outcome": {0: "MISSED", 1: "CAUGHT"}.get(rc, "INCONCLUSIVE"), "signature": sig, "secs": round(dt)}
                res["checks"] = checks
                res["verdict"] = checks[m["prop"]]["outcome"]
        finally:
            open(path, "w").write(orig)
        print(json.dumps(res)); sys.stdout.flush()

if __name__ == "__main__":
    main()
