//! Case/shard framework: deterministic cases numbered globally, sharded over worker
//! processes; three-valued verdicts; evidence and replay writers; known-finding matching.

use crate::exec;
use crate::rng::Rng;
use serde_json::{json, Map, Value};
use std::collections::{BTreeMap, HashSet};
use std::io::Write;
use std::path::{Path, PathBuf};
use std::process::{Command, Stdio};
use std::sync::atomic::{AtomicU64, Ordering};
use std::time::{Duration, Instant};

pub const VERIF_DIR: &str = "/verif";

/// Root of the verification tree this binary belongs to: the directory that contains `harness/`
/// (derived from the executable's own path, so that a snapshot of /verif is self-contained);
/// HCVERIF_ROOT overrides; falls back to /verif.
pub fn root_dir() -> std::path::PathBuf {
    if let Ok(r) = std::env::var("HCVERIF_ROOT") {
        return std::path::PathBuf::from(r);
    }
    if let Ok(exe) = std::env::current_exe() {
        for a in exe.ancestors() {
            if a.file_name().map(|n| n == "harness").unwrap_or(false) {
                if let Some(p) = a.parent() {
                    return p.to_path_buf();
                }
            }
        }
    }
    std::path::PathBuf::from(VERIF_DIR)
}

/// Where evidence, replays and scratch files go (default: the root; the mutation self-test
/// redirects it so that runs against seeded changes never overwrite real evidence).
pub fn out_dir() -> std::path::PathBuf {
    match std::env::var("HCVERIF_OUT_DIR") {
        Ok(d) => std::path::PathBuf::from(d),
        Err(_) => root_dir(),
    }
}

#[derive(Clone, Debug)]
pub struct Violation {
    /// class signature (stable across runs; used for known-finding matching)
    pub sig: String,
    pub detail: String,
    pub case_id: u64,
    pub replay: Value,
}

#[derive(Clone, Copy, Debug, PartialEq, Eq)]
pub enum Tier {
    Quick,
    Thorough,
}
impl Tier {
    pub fn name(&self) -> &'static str {
        match self {
            Tier::Quick => "quick",
            Tier::Thorough => "thorough",
        }
    }
    pub fn pick<T>(&self, q: T, t: T) -> T {
        match self {
            Tier::Quick => q,
            Tier::Thorough => t,
        }
    }
}

pub struct Ctx {
    pub prop: &'static str,
    pub tier: Tier,
    pub seed: u64,
    pub case_id: u64,
    pub counters: BTreeMap<String, u64>,
    pub samples: Vec<Value>,
    pub violations: Vec<Violation>,
    pub distinct: HashSet<u64>,
    pub evaluations: u64,
    pub notes: Vec<String>,
    pub max_samples: usize,
    pub replay_mode: bool,
    /// "release" or "debug" (overflow-checked build lane)
    pub debug_lane: bool,
}

impl Ctx {
    pub fn new(prop: &'static str, tier: Tier, seed: u64) -> Ctx {
        Ctx {
            prop,
            tier,
            seed,
            case_id: 0,
            counters: BTreeMap::new(),
            samples: vec![],
            violations: vec![],
            distinct: HashSet::new(),
            evaluations: 0,
            notes: vec![],
            max_samples: 3,
            replay_mode: false,
            debug_lane: cfg!(debug_assertions),
        }
    }
    pub fn count(&mut self, k: &str) {
        self.add(k, 1);
    }
    pub fn add(&mut self, k: &str, n: u64) {
        if let Some(v) = self.counters.get_mut(k) {
            *v += n;
        } else {
            self.counters.insert(k.to_string(), n);
        }
    }
    pub fn maxc(&mut self, k: &str, n: u64) {
        let k2 = format!("max:{k}");
        let e = self.counters.entry(k2).or_insert(0);
        if n > *e {
            *e = n;
        }
    }
    pub fn sample(&mut self, v: impl FnOnce() -> Value) {
        if self.samples.len() < self.max_samples {
            self.samples.push(v());
        }
    }
    /// Register one evaluated case; `nontrivial_hash` is Some(canonical hash) iff the case is
    /// non-trivial by the property's rule.
    pub fn eval(&mut self, nontrivial_hash: Option<u64>) {
        self.evaluations += 1;
        if let Some(h) = nontrivial_hash {
            if self.distinct.len() < 4_000_000 {
                self.distinct.insert(h);
            }
        }
    }
    pub fn violate(&mut self, sig: String, detail: String, replay: Value) {
        // keep at most 3 per signature per shard
        let n = self.violations.iter().filter(|v| v.sig == sig).count();
        if n < 3 {
            let mut replay = replay;
            if let Value::Object(m) = &mut replay {
                m.insert("prop".into(), json!(self.prop));
                m.insert("seed".into(), json!(self.seed));
                m.insert("tier".into(), json!(self.tier.name()));
                m.insert("case_id".into(), json!(self.case_id));
                m.insert("sig".into(), json!(sig));
                m.insert("detail".into(), json!(detail));
            }
            self.violations.push(Violation {
                sig,
                detail,
                case_id: self.case_id,
                replay,
            });
        }
        self.count("violations_seen");
    }
    pub fn case_rng(&self, case_id: u64) -> Rng {
        let mut r = Rng::new(self.seed.wrapping_mul(0x9E37_79B9).wrapping_add(crate::rng::fnv(self.prop.as_bytes())));
        r.next_u64();
        Rng::new(r.next_u64() ^ case_id.wrapping_mul(0xA24B_AED4_963E_E407))
    }
}

/// A property check: a numbered stream of deterministic cases.
pub struct Spec {
    pub id: &'static str,
    pub level: &'static str,
    /// cases [0, fixed) always run in full (directed + bounded-exhaustive chunks)
    pub fixed_cases: fn(Tier) -> u64,
    /// seconds of seeded-random cases (ids >= fixed) per worker after the fixed ones
    pub random_secs: fn(Tier) -> u64,
    /// hard cap on random cases (over all shards)
    pub random_cap: fn(Tier) -> u64,
    pub run_case: fn(&mut Ctx, u64),
    pub required: &'static [&'static str],
    pub rule: &'static str,
    pub assumptions: &'static [&'static str],
    pub exhaustive_note: &'static str,
    /// per-case hang limit in seconds
    pub hang_secs: u64,
}

/// Properties whose verdict also rests on an overflow-checked debug build of the same cases.
pub const DEBUG_LANE_PROPS: [&str; 2] = ["C09", "C11"];

static INFLIGHT: AtomicU64 = AtomicU64::new(u64::MAX);
static INFLIGHT_SINCE_MS: AtomicU64 = AtomicU64::new(0);

fn now_ms(t0: Instant) -> u64 {
    t0.elapsed().as_millis() as u64
}

pub struct WorkerArgs {
    pub tier: Tier,
    pub seed: u64,
    pub shard: u64,
    pub nshards: u64,
    pub out: PathBuf,
    pub only_case: Option<u64>,
    pub hang_mult: u64,
}

/// Address-space cap for worker processes: a runaway allocation (e.g. an unbounded loop that
/// queues storage instructions) must kill the worker, not the machine. The allocation failure
/// aborts the process; the parent then confirms the case in flight by a solo re-run.
fn limit_memory(bytes: u64) {
    let lim = libc::rlimit {
        rlim_cur: bytes,
        rlim_max: bytes,
    };
    unsafe {
        libc::setrlimit(libc::RLIMIT_AS, &lim);
    }
}

pub fn run_worker(spec: &Spec, a: &WorkerArgs) -> i32 {
    exec::install_panic_hook();
    let mem_gb: u64 = std::env::var("VERIF_WORKER_MEM_GB").ok().and_then(|s| s.parse().ok()).unwrap_or(6);
    // sanitizer builds reserve huge shadow address ranges: no cap there
    if std::env::var("HCVERIF_NO_RLIMIT").is_err() && !cfg!(miri) {
        limit_memory(mem_gb << 30);
    }
    let t0 = Instant::now();
    let status_path = a.out.with_extension("status");
    // HCVERIF_HANG_SECS: absolute per-case limit, used only by the selftest sweeps (many hanging mutants)
    let hang_secs = std::env::var("HCVERIF_HANG_SECS").ok().and_then(|s| s.parse().ok()).unwrap_or(spec.hang_secs * a.hang_mult);
    {
        // watchdog thread: logical progress is per case; fires only when one case exceeds the
        // generous limit. exit code 3 = hang candidate (confirmed separately by the parent).
        let status_path = status_path.clone();
        std::thread::spawn(move || loop {
            std::thread::sleep(Duration::from_millis(500));
            let c = INFLIGHT.load(Ordering::SeqCst);
            if c != u64::MAX {
                let since = INFLIGHT_SINCE_MS.load(Ordering::SeqCst);
                if now_ms(t0).saturating_sub(since) > hang_secs * 1000 {
                    let _ = std::fs::write(&status_path, format!("hang {c}"));
                    std::process::exit(3);
                }
            }
        });
    }
    let mut ctx = Ctx::new(spec.id, a.tier, a.seed);
    let fixed = (spec.fixed_cases)(a.tier);
    let run_one = |ctx: &mut Ctx, id: u64| {
        INFLIGHT_SINCE_MS.store(now_ms(t0), Ordering::SeqCst);
        INFLIGHT.store(id, Ordering::SeqCst);
        let _ = std::fs::write(&status_path, format!("running {id}"));
        ctx.case_id = id;
        let r = exec::guarded(|| (spec.run_case)(ctx, id));
        if let Err(p) = r {
            // a panic that escaped the monitors' own guards: harness or crate bug outside a
            // guarded public call; report as violation of this property with its own signature
            ctx.violate(
                format!("unguarded-panic:{}", exec::panic_sig(&p)),
                p,
                json!({"kind":"case"}),
            );
        }
        INFLIGHT.store(u64::MAX, Ordering::SeqCst);
    };
    if let Some(id) = a.only_case {
        ctx.replay_mode = true;
        run_one(&mut ctx, id);
    } else {
        let mut id = a.shard;
        while id < fixed {
            run_one(&mut ctx, id);
            id += a.nshards;
            if ctx.violations.len() >= 12 {
                break;
            }
        }
        let secs = std::env::var("VERIF_RANDOM_SECS").ok().and_then(|s| s.parse().ok()).unwrap_or((spec.random_secs)(a.tier));
        let cap = (spec.random_cap)(a.tier);
        let t1 = Instant::now();
        let mut k = 0u64;
        while t1.elapsed().as_secs() < secs && ctx.violations.len() < 12 {
            let id = fixed + a.shard + k * a.nshards;
            if id - fixed >= cap {
                break;
            }
            run_one(&mut ctx, id);
            k += 1;
        }
        ctx.add("random_cases", k);
    }
    let _ = std::fs::write(&status_path, "done");
    // write result
    let mut hashes: Vec<u8> = Vec::with_capacity(ctx.distinct.len() * 8);
    for h in &ctx.distinct {
        hashes.extend_from_slice(&h.to_le_bytes());
    }
    let _ = std::fs::write(a.out.with_extension("hashes"), hashes);
    let viols: Vec<Value> = ctx
        .violations
        .iter()
        .map(|v| json!({"sig": v.sig, "detail": v.detail, "case_id": v.case_id, "replay": v.replay}))
        .collect();
    let out = json!({
        "evaluations": ctx.evaluations,
        "counters": ctx.counters,
        "samples": ctx.samples,
        "violations": viols,
        "notes": ctx.notes,
        "wall_s": t0.elapsed().as_secs_f64(),
    });
    std::fs::write(a.out.with_extension("json"), serde_json::to_vec(&out).unwrap()).unwrap();
    0
}

pub struct Known {
    pub property: String,
    pub signature: String,
    pub what: String,
}

pub fn load_known() -> Vec<Known> {
    let p = root_dir().join("known_findings.json");
    let mut out = vec![];
    if let Ok(s) = std::fs::read_to_string(p) {
        if let Ok(v) = serde_json::from_str::<Value>(&s) {
            if let Some(a) = v.get("findings").and_then(|x| x.as_array()) {
                for f in a {
                    out.push(Known {
                        property: f["property"].as_str().unwrap_or("").to_string(),
                        signature: f["signature"].as_str().unwrap_or("").to_string(),
                        what: f["what"].as_str().unwrap_or("").to_string(),
                    });
                }
            }
        }
    }
    out
}

fn nshards() -> u64 {
    let n = std::thread::available_parallelism().map(|n| n.get()).unwrap_or(4) as u64;
    if let Ok(s) = std::env::var("VERIF_JOBS") {
        if let Ok(v) = s.parse::<u64>() {
            return v.max(1);
        }
    }
    n.min(16).max(1)
}

pub fn seed_from_env() -> u64 {
    std::env::var("VERIF_SEED")
        .ok()
        .and_then(|s| s.trim().parse::<i64>().ok())
        .map(|v| v as u64)
        .unwrap_or(1)
}

/// Parent: spawn shards, merge, decide, write evidence. Returns the exit code.
pub fn run_check(spec: &Spec, tier: Tier, extra_lanes: &[LaneResult]) -> i32 {
    let t0 = Instant::now();
    let seed = seed_from_env();
    let n = nshards();
    let scratch = out_dir().join("scratch").join(format!("{}-{}", spec.id, std::process::id()));
    let _ = std::fs::remove_dir_all(&scratch);
    std::fs::create_dir_all(&scratch).unwrap();
    let exe = std::env::current_exe().unwrap();
    let mut children = vec![];
    for i in 0..n {
        let out = scratch.join(format!("shard{i}"));
        let child = Command::new(&exe)
            .args([
                "worker",
                spec.id,
                "--tier",
                tier.name(),
                "--seed",
                &seed.to_string(),
                "--shard",
                &i.to_string(),
                "--nshards",
                &n.to_string(),
                "--out",
                out.to_str().unwrap(),
            ])
            .stdout(Stdio::null())
            .stderr(Stdio::inherit())
            .spawn()
            .expect("spawn worker");
        children.push((i, out, child, exe.clone()));
    }
    // overflow-checked debug-build lane (same deterministic cases, thinned), if the binary exists
    let mut n_debug = 0u64;
    if DEBUG_LANE_PROPS.contains(&spec.id) {
        if let Ok(dbg) = std::env::var("HCVERIF_DEBUG_BIN") {
            if Path::new(&dbg).exists() {
                n_debug = (n / 2).max(1);
                for i in 0..n_debug {
                    let out = scratch.join(format!("dbgshard{i}"));
                    let child = Command::new(&dbg)
                        .args(["worker", spec.id, "--tier", tier.name(), "--seed", &seed.to_string(), "--shard", &i.to_string(), "--nshards", &n_debug.to_string(), "--out", out.to_str().unwrap()])
                        .stdout(Stdio::null())
                        .stderr(Stdio::inherit())
                        .spawn()
                        .expect("spawn debug worker");
                    children.push((1000 + i, out, child, std::path::PathBuf::from(&dbg)));
                }
            }
        }
    }
    let mut inconclusive: Vec<String> = vec![];
    let mut confirmed_deaths = 0u32;
    if DEBUG_LANE_PROPS.contains(&spec.id) && n_debug == 0 {
        inconclusive.push("overflow-checked debug-build lane did not run (HCVERIF_DEBUG_BIN missing)".into());
    }
    let mut merged_counters: BTreeMap<String, u64> = BTreeMap::new();
    let mut samples: Vec<Value> = vec![];
    let mut violations: Vec<Value> = vec![];
    let mut distinct: HashSet<u64> = HashSet::new();
    let mut evaluations = 0u64;
    let mut notes: Vec<String> = vec![];
    // generous global watchdog (inconclusive if it fires; never a violation by itself)
    let global_limit = Duration::from_secs(
        ((spec.random_secs)(tier) + 60) * 20 + spec.hang_secs * 12 + 1800,
    );
    for (i, out, mut child, child_exe) in children {
        let status = loop {
            match child.try_wait() {
                Ok(Some(s)) => break Some(s),
                Ok(None) => {
                    if t0.elapsed() > global_limit {
                        let _ = child.kill();
                        let _ = child.wait();
                        break None;
                    }
                    std::thread::sleep(Duration::from_millis(50));
                }
                Err(_) => break None,
            }
        };
        let st = std::fs::read_to_string(out.with_extension("status")).unwrap_or_default();
        let ok = matches!(status, Some(s) if s.success());
        if !ok {
            // died: hang candidate (exit 3) or abort/signal. Confirm by re-running the case alone.
            let code = status.and_then(|s| s.code());
            let case: Option<u64> = st.split_whitespace().nth(1).and_then(|s| s.parse().ok());
            match (code, case) {
                (_, Some(case)) if confirmed_deaths >= 1 => {
                    // the run already has confirmed hangs/aborts (=> violated): further dead shards
                    // are recorded without spending minutes on re-confirming each of them
                    notes.push(format!("shard {i} also died (exit {:?}) at case {case}; not re-confirmed", code));
                }
                (_, Some(case)) => {
                    let what = if code == Some(3) { "hang" } else { "abort" };
                    let out2 = scratch.join(format!("confirm{i}"));
                    let r = Command::new(&child_exe)
                        .args([
                            "worker",
                            spec.id,
                            "--tier",
                            tier.name(),
                            "--seed",
                            &seed.to_string(),
                            "--shard",
                            "0",
                            "--nshards",
                            "1",
                            "--out",
                            out2.to_str().unwrap(),
                            "--only-case",
                            &case.to_string(),
                            "--hang-mult",
                            "2",
                        ])
                        .stdout(Stdio::null())
                        .status();
                    let confirmed = match r {
                        Ok(s) => !s.success(),
                        Err(_) => false,
                    };
                    if confirmed {
                        confirmed_deaths += 1;
                        violations.push(json!({
                            "sig": format!("{what}:case"),
                            "detail": format!("worker process died ({what}, exit {:?}) while running case {case}; reproduced when the case was re-run alone", code),
                            "case_id": case,
                            "replay": {"kind":"case","prop":spec.id,"seed":seed,"tier":tier.name(),"case_id":case},
                        }));
                    } else if let Ok(s) = std::fs::read(out2.with_extension("json")) {
                        // did not reproduce; take the rerun's findings, mark run inconclusive
                        inconclusive.push(format!("shard {i} died ({what}) at case {case} but the case passed when re-run alone"));
                        if let Ok(v) = serde_json::from_slice::<Value>(&s) {
                            if let Some(a) = v["violations"].as_array() {
                                violations.extend(a.iter().cloned());
                            }
                        }
                    } else {
                        inconclusive.push(format!("shard {i} died ({what}) at case {case}; confirmation run gave no result"));
                    }
                }
                _ => inconclusive.push(format!("shard {i} failed without a case in flight (exit {:?}, status '{st}')", code)),
            }
            // partial results of that shard are lost by design
            continue;
        }
        match std::fs::read(out.with_extension("json")) {
            Ok(s) => {
                let v: Value = serde_json::from_slice(&s).unwrap_or(Value::Null);
                let is_dbg = i >= 1000;
                evaluations += v["evaluations"].as_u64().unwrap_or(0);
                if is_dbg {
                    *merged_counters.entry("debug_build_lane_evaluations".into()).or_insert(0) += v["evaluations"].as_u64().unwrap_or(0);
                }
                if let Some(m) = v["counters"].as_object() {
                    for (k, x) in m {
                        let x = x.as_u64().unwrap_or(0);
                        let k = if is_dbg { if k.starts_with("max:") { format!("max:debug:{}", &k[4..]) } else { format!("debug:{k}") } } else { k.clone() };
                        let e = merged_counters.entry(k.clone()).or_insert(0);
                        if k.starts_with("max:") {
                            *e = (*e).max(x);
                        } else {
                            *e += x;
                        }
                    }
                }
                if let Some(a) = v["samples"].as_array() {
                    for s in a {
                        if samples.len() < 6 {
                            samples.push(s.clone());
                        }
                    }
                }
                if let Some(a) = v["violations"].as_array() {
                    for x in a {
                        let mut x = x.clone();
                        if is_dbg {
                            // same class as in the release build if it also fails there; otherwise marked
                            let sig = x["sig"].as_str().unwrap_or("").to_string();
                            x["detail"] = json!(format!("[overflow-checked debug build] {}", x["detail"].as_str().unwrap_or("")));
                            x["sig"] = json!(sig);
                            x["replay"]["build"] = json!("debug");
                        }
                        violations.push(x);
                    }
                }
                if let Some(a) = v["notes"].as_array() {
                    for s in a {
                        if notes.len() < 20 {
                            notes.push(s.as_str().unwrap_or("").to_string());
                        }
                    }
                }
                if let Ok(h) = std::fs::read(out.with_extension("hashes")) {
                    for c in h.chunks_exact(8) {
                        distinct.insert(u64::from_le_bytes(c.try_into().unwrap()));
                    }
                }
            }
            Err(_) => inconclusive.push(format!("shard {i} wrote no result")),
        }
    }
    let _ = std::fs::remove_dir_all(&scratch);

    // extra lanes (sanitizers etc.) contribute counters, violations, inconclusive notes
    for l in extra_lanes {
        for (k, v) in &l.counters {
            *merged_counters.entry(format!("{}:{}", l.name, k)).or_insert(0) += v;
        }
        for v in &l.violations {
            violations.push(v.clone());
        }
        for s in &l.inconclusive {
            inconclusive.push(format!("lane {}: {}", l.name, s));
        }
    }

    // required observations
    for r in spec.required {
        if merged_counters.get(*r).copied().unwrap_or(0) == 0 {
            inconclusive.push(format!("required observation never made: {r}"));
        }
    }

    // classify violations against known findings
    let known = load_known();
    let mut new_viol: Vec<&Value> = vec![];
    let mut known_hit: BTreeMap<String, (String, u64)> = BTreeMap::new();
    for v in &violations {
        let sig = v["sig"].as_str().unwrap_or("");
        if let Some(k) = known.iter().find(|k| k.property == spec.id && k.signature == sig) {
            let e = known_hit.entry(sig.to_string()).or_insert((k.what.clone(), 0));
            e.1 += 1;
        } else {
            new_viol.push(v);
        }
    }
    for (sig, (what, n)) in &known_hit {
        println!("KNOWN-FINDING: property={} {} [signature {}; seen {} time(s) in this run]", spec.id, what, sig, n);
    }
    let replay_dir = out_dir().join("replays");
    let _ = std::fs::create_dir_all(&replay_dir);
    let mut printed: HashSet<String> = HashSet::new();
    let mut first_replay = String::new();
    for v in &new_viol {
        let sig = v["sig"].as_str().unwrap_or("").to_string();
        if !printed.insert(sig.clone()) || printed.len() > 25 {
            continue;
        }
        let case = v["case_id"].as_u64().unwrap_or(0);
        let path = replay_dir.join(format!("{}-{}-{}-{:08x}.json", spec.id, seed, case, crate::rng::fnv(sig.as_bytes()) as u32));
        let _ = std::fs::write(&path, serde_json::to_vec_pretty(&v["replay"]).unwrap());
        if first_replay.is_empty() {
            first_replay = path.display().to_string();
        }
        println!("VIOLATION property={} replay={}", spec.id, path.display());
        println!("  signature: {}", sig);
        let d = v["detail"].as_str().unwrap_or("");
        let d: String = d.chars().take(600).collect();
        println!("  detail: {}", d);
    }

    let wall = t0.elapsed().as_secs_f64();
    let mut cov = Map::new();
    cov.insert("evaluations".into(), json!(evaluations));
    cov.insert("distinct_nontrivial".into(), json!(distinct.len()));
    cov.insert("rule".into(), json!(spec.rule));
    if samples.is_empty() {
        samples.push(json!("no sample recorded"));
    }
    cov.insert("samples".into(), Value::Array(samples));
    cov.insert("exhaustive".into(), json!(false));
    cov.insert("exhaustive_part".into(), json!(spec.exhaustive_note));
    cov.insert("observed".into(), json!(merged_counters));
    cov.insert("required_observations".into(), json!(spec.required));
    cov.insert("shards".into(), json!(n));
    cov.insert("notes".into(), json!(notes));
    cov.insert("inconclusive".into(), json!(inconclusive));
    cov.insert(
        "known_findings_seen".into(),
        json!(known_hit.iter().map(|(k, v)| json!({"signature":k,"what":v.0,"count":v.1})).collect::<Vec<_>>()),
    );
    cov.insert(
        "verdict".into(),
        json!(if !new_viol.is_empty() { "violated" } else if !inconclusive.is_empty() { "inconclusive" } else { "held on everything explored" }),
    );
    let ev = json!({
        "property_id": spec.id,
        "tier": tier.name(),
        "seed": seed as i64,
        "level": spec.level,
        "coverage": Value::Object(cov),
        "assumptions": spec.assumptions,
        "wall_s": wall,
        "violations": new_viol.len(),
    });
    let evdir = out_dir().join("evidence");
    let _ = std::fs::create_dir_all(&evdir);
    let mut f = std::fs::File::create(evdir.join(format!("{}.json", spec.id))).unwrap();
    f.write_all(&serde_json::to_vec_pretty(&ev).unwrap()).unwrap();

    println!(
        "{} {} seed={} evaluations={} distinct_nontrivial={} wall={:.1}s",
        spec.id,
        tier.name(),
        seed,
        evaluations,
        distinct.len(),
        wall
    );
    let interesting: Vec<String> = merged_counters
        .iter()
        .map(|(k, v)| format!("{k}={v}"))
        .collect();
    println!("observed: {}", interesting.join(" "));
    if !new_viol.is_empty() {
        return 1;
    }
    if !inconclusive.is_empty() {
        for s in &inconclusive {
            println!("INCONCLUSIVE property={} {}", spec.id, s);
        }
        return 2;
    }
    println!("HELD property={} (on everything explored)", spec.id);
    0
}

#[derive(Default, Debug)]
pub struct LaneResult {
    pub name: String,
    pub counters: BTreeMap<String, u64>,
    pub violations: Vec<Value>,
    pub inconclusive: Vec<String>,
}

/// Re-execute the case recorded in a replay file (cases are deterministic functions of
/// property, tier, seed and case id). Exit 1 if a violation is reproduced, 0 otherwise.
pub fn run_replay(path: &str) -> i32 {
    exec::install_panic_hook();
    let v: Value = match std::fs::read(path).ok().and_then(|s| serde_json::from_slice(&s).ok()) {
        Some(v) => v,
        None => {
            eprintln!("cannot read replay file {path}");
            return 2;
        }
    };
    let prop = v["prop"].as_str().unwrap_or("");
    let Some(spec) = crate::props::find(prop) else {
        eprintln!("unknown property in replay file");
        return 2;
    };
    let tier = if v["tier"].as_str() == Some("thorough") { Tier::Thorough } else { Tier::Quick };
    let seed = v["seed"].as_u64().or_else(|| v["seed"].as_i64().map(|x| x as u64)).unwrap_or(1);
    let case = v["case_id"].as_u64().unwrap_or(0);
    let mut ctx = Ctx::new(spec.id, tier, seed);
    ctx.replay_mode = true;
    ctx.case_id = case;
    let r = exec::guarded(|| (spec.run_case)(&mut ctx, case));
    if let Err(p) = r {
        println!("case panicked outside a guarded call: {p}");
        return 1;
    }
    println!("replayed {prop} tier={} seed={seed} case={case}: {} violation(s)", tier.name(), ctx.violations.len());
    for x in &ctx.violations {
        println!("  signature: {}", x.sig);
        println!("  detail: {}", x.detail);
        println!("  replay: {}", serde_json::to_string(&x.replay).unwrap_or_default());
    }
    if ctx.violations.is_empty() {
        0
    } else {
        1
    }
}
