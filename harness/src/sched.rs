//! Deterministic single-threaded scheduler: polls N task futures; at every step a chooser picks
//! one runnable task. Preemption points are whatever returns Pending: the pre-call yields, every
//! storage operation of the yielding backend, and contended lock acquisitions.
//!
//! Fair-lock mode (`FAIR_LOCK_US` > 0): `async_lock::Mutex` lets a task that unlocks and locks
//! again at once overtake a parked waiter unless that waiter has been waiting for more than
//! 500 us of wall-clock time, after which the lock is handed over in arrival order. On a loaded
//! multi-threaded executor that is the common case, so every lock acquisition is a preemption
//! point there. The single-threaded scheduler reproduces it by letting that much wall-clock time
//! pass before each step during which some task is parked.

use crate::rng::Rng;
use std::future::Future;
use std::pin::Pin;
use std::sync::atomic::{AtomicBool, Ordering};
use std::sync::Arc;
use std::task::{Context, Poll, Wake, Waker};

/// microseconds of wall-clock time to let pass before a step while some task is parked (0 = off)
pub static FAIR_LOCK_US: std::sync::atomic::AtomicU64 = std::sync::atomic::AtomicU64::new(0);

struct Flag(AtomicBool);
impl Wake for Flag {
    fn wake(self: Arc<Self>) {
        self.0.store(true, Ordering::SeqCst);
    }
    fn wake_by_ref(self: &Arc<Self>) {
        self.0.store(true, Ordering::SeqCst);
    }
}

pub type Task = Pin<Box<dyn Future<Output = ()>>>;

pub trait Chooser {
    /// pick an index into `runnable` (task ids, ascending)
    fn choose(&mut self, runnable: &[usize], step: usize) -> usize;
}

/// Replays a prefix of choices, then always picks alternative 0; records the branching factor
/// at every step so that a DFS driver can enumerate all schedules.
pub struct PrefixChooser {
    pub prefix: Vec<usize>,
    pub taken: Vec<usize>,
    pub widths: Vec<usize>,
}
impl Chooser for PrefixChooser {
    fn choose(&mut self, runnable: &[usize], step: usize) -> usize {
        let c = if step < self.prefix.len() { self.prefix[step].min(runnable.len() - 1) } else { 0 };
        self.taken.push(c);
        self.widths.push(runnable.len());
        c
    }
}

/// Seeded random with PCT-style priorities: each task has a priority; the highest-priority
/// runnable task runs; at `d` random change points the running task's priority drops.
pub struct PctChooser {
    pub rng: Rng,
    pub prio: Vec<u64>,
    pub change_at: Vec<usize>,
    pub uniform: bool,
}
impl PctChooser {
    pub fn new(mut rng: Rng, ntasks: usize, depth: usize, horizon: usize) -> Self {
        let mut prio: Vec<u64> = (0..ntasks as u64).map(|i| 1000 + i).collect();
        rng.shuffle(&mut prio);
        let change_at = (0..depth).map(|_| rng.below(horizon.max(1) as u64) as usize).collect();
        let uniform = rng.chance(1, 2);
        PctChooser { rng, prio, change_at, uniform }
    }
}
impl Chooser for PctChooser {
    fn choose(&mut self, runnable: &[usize], step: usize) -> usize {
        if self.uniform {
            return self.rng.below(runnable.len() as u64) as usize;
        }
        let (pos, &task) = runnable.iter().enumerate().max_by_key(|(_, t)| self.prio[**t]).unwrap();
        if self.change_at.contains(&step) {
            self.prio[task] = self.rng.below(500);
        }
        pos
    }
}

#[derive(Default, Debug, Clone)]
pub struct RunStats {
    pub polls: u64,
    pub switches: u64,
    pub steps: usize,
    pub deadlock: bool,
    pub budget_exhausted: bool,
    pub choice_hash: u64,
    pub fair_waits: u64,
}

/// Run tasks to completion. `observe(step, runnable, ready_flags)` is called before each choice.
pub fn run(tasks: Vec<Task>, chooser: &mut dyn Chooser, max_steps: usize, mut observe: impl FnMut(&[usize], &[bool])) -> RunStats {
    let n = tasks.len();
    let mut tasks: Vec<Option<Task>> = tasks.into_iter().map(Some).collect();
    let flags: Vec<Arc<Flag>> = (0..n).map(|_| Arc::new(Flag(AtomicBool::new(true)))).collect();
    let wakers: Vec<Waker> = flags.iter().map(|f| Waker::from(f.clone())).collect();
    let mut st = RunStats::default();
    let mut last: Option<usize> = None;
    let mut parked_before = false;
    let mut h: u64 = 0xcbf29ce484222325;
    loop {
        let alive: Vec<usize> = (0..n).filter(|i| tasks[*i].is_some()).collect();
        if alive.is_empty() {
            break;
        }
        let runnable: Vec<usize> = alive.iter().copied().filter(|i| flags[*i].0.load(Ordering::SeqCst)).collect();
        if runnable.is_empty() {
            st.deadlock = true;
            break;
        }
        if st.steps >= max_steps {
            st.budget_exhausted = true;
            break;
        }
        let ready: Vec<bool> = (0..n).map(|i| tasks[i].is_some() && flags[i].0.load(Ordering::SeqCst)).collect();
        let fair = FAIR_LOCK_US.load(Ordering::Relaxed);
        let parked_now = runnable.len() < alive.len();
        if fair > 0 && (parked_now || parked_before) {
            std::thread::sleep(std::time::Duration::from_micros(fair));
            st.fair_waits += 1;
        }
        parked_before = parked_now;
        observe(&runnable, &ready);
        let pos = chooser.choose(&runnable, st.steps);
        let t = runnable[pos.min(runnable.len() - 1)];
        h = (h ^ (t as u64 + 1)).wrapping_mul(0x100000001b3);
        st.steps += 1;
        if last.is_some() && last != Some(t) {
            st.switches += 1;
        }
        last = Some(t);
        flags[t].0.store(false, Ordering::SeqCst);
        let mut cx = Context::from_waker(&wakers[t]);
        st.polls += 1;
        let done = matches!(tasks[t].as_mut().unwrap().as_mut().poll(&mut cx), Poll::Ready(()));
        if done {
            tasks[t] = None;
        }
    }
    st.choice_hash = h;
    st
}
