//! Instrumented storage backend: four flat byte vectors living outside the `Hypercore`
//! value, handed to the crate through the public `Storage::open` callback. Journals every
//! mutating operation, can fail one chosen operation, and can turn every operation into a
//! preemption point (returns Pending once).

use async_trait::async_trait;
use futures::future::FutureExt;
use hypercore::{Storage, StorageTraits, Store};
use random_access_storage::{RandomAccess, RandomAccessError};
use std::future::Future;
use std::pin::Pin;
use std::sync::{Arc, Mutex};
use std::task::{Context, Poll};

pub const TREE: usize = 0;
pub const DATA: usize = 1;
pub const BITFIELD: usize = 2;
pub const OPLOG: usize = 3;
pub const STORE_NAMES: [&str; 4] = ["tree", "data", "bitfield", "oplog"];

pub fn store_idx(s: &Store) -> usize {
    match s {
        Store::Tree => TREE,
        Store::Data => DATA,
        Store::Bitfield => BITFIELD,
        Store::Oplog => OPLOG,
    }
}

#[derive(Clone, Debug, PartialEq)]
pub enum Mutn {
    Write { off: u64, data: Vec<u8> },
    Del { off: u64, len: u64 },
    Truncate { len: u64 },
}

impl Mutn {
    pub fn kind(&self) -> &'static str {
        match self {
            Mutn::Write { .. } => "write",
            Mutn::Del { .. } => "del",
            Mutn::Truncate { .. } => "truncate",
        }
    }
}

#[derive(Clone, Debug)]
pub struct JEntry {
    pub call_id: u64,
    pub store: usize,
    pub op: Mutn,
}

#[derive(Clone, Debug, PartialEq, Eq, Hash)]
pub struct OpDesc {
    pub store: usize,
    pub kind: &'static str, // write del truncate read len
}

pub type Files = [Vec<u8>; 4];

/// Semantics of the stock backends (random-access-memory 3.0.0 / random-access-disk 3.0.1).
pub fn apply_mut(f: &mut Vec<u8>, m: &Mutn) -> Result<(), RandomAccessError> {
    match m {
        Mutn::Write { off, data } => {
            let end = *off as usize + data.len();
            if f.len() < end {
                f.resize(end, 0);
            }
            f[*off as usize..end].copy_from_slice(data);
            Ok(())
        }
        Mutn::Del { off, len } => {
            let flen = f.len() as u64;
            if *off > flen {
                return Err(RandomAccessError::OutOfBounds {
                    offset: *off,
                    end: None,
                    length: flen,
                });
            }
            if *len == 0 {
                return Ok(());
            }
            if off + len >= flen {
                f.truncate(*off as usize);
                return Ok(());
            }
            for b in &mut f[*off as usize..(*off + *len) as usize] {
                *b = 0;
            }
            Ok(())
        }
        Mutn::Truncate { len } => {
            f.resize(*len as usize, 0);
            Ok(())
        }
    }
}

#[derive(Debug, Default)]
pub struct World {
    pub files: Files,
    pub journaling: bool,
    pub journal: Vec<JEntry>,
    pub call_id: u64,
    /// counts every operation (reads and length queries included)
    pub op_counter: u64,
    pub op_log: Vec<OpDesc>,
    pub log_ops: bool,
    pub fail_at: Option<u64>,
    pub failed: Option<OpDesc>,
    pub muts_after_fail: u64,
    pub yield_mode: bool,
    pub yields: u64,
    pub reads: u64,
    pub muts: u64,
}

impl World {
    pub fn new() -> Arc<Mutex<World>> {
        Arc::new(Mutex::new(World::default()))
    }
    pub fn from_files(files: Files) -> Arc<Mutex<World>> {
        Arc::new(Mutex::new(World {
            files,
            ..Default::default()
        }))
    }
    /// returns Err if this op is the one to fail
    fn tick(&mut self, store: usize, kind: &'static str) -> Result<(), RandomAccessError> {
        let n = self.op_counter;
        self.op_counter += 1;
        if self.log_ops {
            self.op_log.push(OpDesc { store, kind });
        }
        if self.failed.is_some() && kind != "read" && kind != "len" {
            self.muts_after_fail += 1;
        }
        if self.fail_at == Some(n) {
            self.failed = Some(OpDesc { store, kind });
            return Err(RandomAccessError::IO {
                return_code: Some(5),
                context: Some(format!("injected fault at op {n} ({} {kind})", STORE_NAMES[store])),
                source: std::io::Error::new(std::io::ErrorKind::Other, "injected"),
            });
        }
        Ok(())
    }
    fn mutate(&mut self, store: usize, m: Mutn) -> Result<(), RandomAccessError> {
        self.tick(store, m.kind())?;
        self.muts += 1;
        let r = apply_mut(&mut self.files[store], &m);
        if r.is_ok() && self.journaling {
            let call_id = self.call_id;
            self.journal.push(JEntry {
                call_id,
                store,
                op: m,
            });
        }
        r
    }
}

pub struct YieldOnce(bool);
impl Future for YieldOnce {
    type Output = ();
    fn poll(mut self: Pin<&mut Self>, cx: &mut Context<'_>) -> Poll<()> {
        if self.0 {
            Poll::Ready(())
        } else {
            self.0 = true;
            cx.waker().wake_by_ref();
            Poll::Pending
        }
    }
}
pub fn yield_once() -> YieldOnce {
    YieldOnce(false)
}

#[derive(Debug)]
pub struct Handle {
    pub world: Arc<Mutex<World>>,
    pub store: usize,
}

impl Handle {
    async fn maybe_yield(&self) {
        let y = {
            let mut w = self.world.lock().unwrap();
            if w.yield_mode {
                w.yields += 1;
            }
            w.yield_mode
        };
        if y {
            yield_once().await;
        }
    }
}

#[async_trait]
impl RandomAccess for Handle {
    async fn write(&mut self, offset: u64, data: &[u8]) -> Result<(), RandomAccessError> {
        self.maybe_yield().await;
        self.world.lock().unwrap().mutate(
            self.store,
            Mutn::Write {
                off: offset,
                data: data.to_vec(),
            },
        )
    }
    async fn read(&mut self, offset: u64, length: u64) -> Result<Vec<u8>, RandomAccessError> {
        self.maybe_yield().await;
        let mut w = self.world.lock().unwrap();
        w.tick(self.store, "read")?;
        w.reads += 1;
        let f = &w.files[self.store];
        if offset + length > f.len() as u64 {
            return Err(RandomAccessError::OutOfBounds {
                offset,
                end: Some(offset + length),
                length: f.len() as u64,
            });
        }
        Ok(f[offset as usize..(offset + length) as usize].to_vec())
    }
    async fn del(&mut self, offset: u64, length: u64) -> Result<(), RandomAccessError> {
        self.maybe_yield().await;
        self.world.lock().unwrap().mutate(
            self.store,
            Mutn::Del {
                off: offset,
                len: length,
            },
        )
    }
    async fn truncate(&mut self, length: u64) -> Result<(), RandomAccessError> {
        self.maybe_yield().await;
        self.world
            .lock()
            .unwrap()
            .mutate(self.store, Mutn::Truncate { len: length })
    }
    async fn len(&mut self) -> Result<u64, RandomAccessError> {
        self.maybe_yield().await;
        let mut w = self.world.lock().unwrap();
        w.tick(self.store, "len")?;
        Ok(w.files[self.store].len() as u64)
    }
    async fn is_empty(&mut self) -> Result<bool, RandomAccessError> {
        let mut w = self.world.lock().unwrap();
        w.tick(self.store, "len")?;
        Ok(w.files[self.store].is_empty())
    }
    async fn sync_all(&mut self) -> Result<(), RandomAccessError> {
        Ok(())
    }
}

/// Build a `Storage` over the world through the crate's public callback interface.
pub async fn storage_of(world: &Arc<Mutex<World>>) -> Result<Storage, hypercore::HypercoreError> {
    let w = world.clone();
    let create = move |store: Store| {
        let w = w.clone();
        async move {
            Ok(Box::new(Handle {
                world: w,
                store: store_idx(&store),
            }) as Box<dyn StorageTraits + Send>)
        }
        .boxed()
    };
    Storage::open(create, false).await
}

pub fn snapshot(world: &Arc<Mutex<World>>) -> Files {
    world.lock().unwrap().files.clone()
}
