//! Single-field alterations of a Proof (the C04 quantifier) and structurally arbitrary proofs
//! (C09).

use crate::rng::Rng;
use hypercore::{DataBlock, DataHash, DataSeek, DataUpgrade, Node, Proof};
use merkle_tree_stream::Node as NodeTrait;

#[derive(Clone, Copy, Debug, PartialEq, Eq, Hash)]
pub enum Sect {
    Block,
    Hash,
    Seek,
    Upgrade,
    Additional,
}
pub const SECTS: [Sect; 5] = [Sect::Block, Sect::Hash, Sect::Seek, Sect::Upgrade, Sect::Additional];

impl Sect {
    pub fn name(&self) -> &'static str {
        match self {
            Sect::Block => "block",
            Sect::Hash => "hash",
            Sect::Seek => "seek",
            Sect::Upgrade => "upgrade",
            Sect::Additional => "additional",
        }
    }
}

#[derive(Clone, Debug, PartialEq)]
pub enum Alt {
    ValueFlip(usize, u8),
    ValueExtend,
    ValueTruncate,
    HashFlip(Sect, usize, usize, u8),
    /// move one byte from the hash of a node to the hash of its sibling that follows it in the
    /// list (the concatenation that a parent hash covers stays the same)
    HashShift(Sect, usize),
    SigFlip(usize, u8),
    SigTruncate,
    SigEmpty,
    SigExtend,
    Fork(i64),
    UpStart(i64),
    UpLength(i64),
    /// start -= k, length += k: the claimed new length (start + length, what the signature
    /// covers) stays the same, only the split between old and new part moves
    UpShift(i64),
    BlockIndex(i64),
    HashIndex(i64),
    SeekBytes(i64),
    NodeIndex(Sect, usize, i64),
    NodeSize(Sect, usize, i64),
    NodeDrop(Sect, usize),
    NodeDup(Sect, usize),
    NodeSwap(Sect, usize),
    NodeInsert(Sect, usize),
    RemoveBlock,
    RemoveHash,
    RemoveSeek,
    RemoveUpgrade,
}

impl Alt {
    pub fn kind(&self) -> String {
        match self {
            Alt::ValueFlip(..) => "value-flip".into(),
            Alt::ValueExtend => "value-extend".into(),
            Alt::ValueTruncate => "value-truncate".into(),
            Alt::HashFlip(s, ..) => format!("hash-flip:{}", s.name()),
            Alt::HashShift(s, _) => format!("hash-shift:{}", s.name()),
            Alt::SigFlip(..) => "sig-flip".into(),
            Alt::SigTruncate => "sig-truncate".into(),
            Alt::SigEmpty => "sig-empty".into(),
            Alt::SigExtend => "sig-extend".into(),
            Alt::Fork(d) => format!("fork{:+}", d),
            Alt::UpStart(d) => format!("upgrade-start{:+}", d),
            Alt::UpLength(d) => format!("upgrade-length{:+}", d),
            Alt::UpShift(d) => if *d == i64::MAX { "upgrade-shift-to-0".into() } else { format!("upgrade-shift{:+}", d) },
            Alt::BlockIndex(d) => format!("block-index{:+}", d),
            Alt::HashIndex(d) => format!("hash-index{:+}", d),
            Alt::SeekBytes(d) => format!("seek-bytes{:+}", d),
            Alt::NodeIndex(s, _, d) => format!("node-index{:+}:{}", d, s.name()),
            Alt::NodeSize(s, _, d) => format!("node-size{:+}:{}", d, s.name()),
            Alt::NodeDrop(s, _) => format!("node-drop:{}", s.name()),
            Alt::NodeDup(s, _) => format!("node-dup:{}", s.name()),
            Alt::NodeSwap(s, _) => format!("node-swap:{}", s.name()),
            Alt::NodeInsert(s, _) => format!("node-insert:{}", s.name()),
            Alt::RemoveBlock => "remove-block".into(),
            Alt::RemoveHash => "remove-hash".into(),
            Alt::RemoveSeek => "remove-seek".into(),
            Alt::RemoveUpgrade => "remove-upgrade".into(),
        }
    }
    /// Alterations of authenticated content: the proof must not be accepted (result != Ok(true)).
    pub fn must_refuse(&self) -> bool {
        matches!(
            self,
            Alt::ValueFlip(..)
                | Alt::ValueExtend
                | Alt::ValueTruncate
                | Alt::HashFlip(..)
                | Alt::HashShift(..)
                | Alt::SigFlip(..)
                | Alt::SigTruncate
                | Alt::SigEmpty
                | Alt::SigExtend
                | Alt::Fork(..)
                | Alt::UpStart(..)
                | Alt::UpLength(..)
        )
    }
}

pub fn nodes_of<'a>(p: &'a Proof, s: Sect) -> Option<&'a Vec<Node>> {
    match s {
        Sect::Block => p.block.as_ref().map(|b| &b.nodes),
        Sect::Hash => p.hash.as_ref().map(|b| &b.nodes),
        Sect::Seek => p.seek.as_ref().map(|b| &b.nodes),
        Sect::Upgrade => p.upgrade.as_ref().map(|b| &b.nodes),
        Sect::Additional => p.upgrade.as_ref().map(|b| &b.additional_nodes),
    }
}
pub fn nodes_mut<'a>(p: &'a mut Proof, s: Sect) -> Option<&'a mut Vec<Node>> {
    match s {
        Sect::Block => p.block.as_mut().map(|b| &mut b.nodes),
        Sect::Hash => p.hash.as_mut().map(|b| &mut b.nodes),
        Sect::Seek => p.seek.as_mut().map(|b| &mut b.nodes),
        Sect::Upgrade => p.upgrade.as_mut().map(|b| &mut b.nodes),
        Sect::Additional => p.upgrade.as_mut().map(|b| &mut b.additional_nodes),
    }
}

fn add(v: u64, d: i64) -> Option<u64> {
    if d < 0 {
        v.checked_sub((-d) as u64)
    } else {
        Some(v + d as u64)
    }
}

fn renode(n: &Node, index: u64, len: u64, hash: Vec<u8>) -> Node {
    let _ = n;
    Node::new(index, hash, len)
}

/// Apply an alteration. None if not applicable or if it would leave the proof unchanged.
pub fn apply(p: &Proof, a: &Alt) -> Option<Proof> {
    let mut q = p.clone();
    match a {
        Alt::ValueFlip(byte, bit) => {
            let b = q.block.as_mut()?;
            if b.value.is_empty() {
                return None;
            }
            let i = byte % b.value.len();
            b.value[i] ^= 1 << (bit % 8);
        }
        Alt::ValueExtend => q.block.as_mut()?.value.push(0),
        Alt::ValueTruncate => {
            let b = q.block.as_mut()?;
            b.value.pop()?;
        }
        Alt::HashFlip(s, pos, byte, bit) => {
            let v = nodes_mut(&mut q, *s)?;
            if v.is_empty() {
                return None;
            }
            let i = pos % v.len();
            let n = v[i].clone();
            let mut h = n.hash().to_vec();
            let bi = byte % h.len();
            h[bi] ^= 1 << (bit % 8);
            v[i] = renode(&n, n.index(), n.len(), h);
        }
        Alt::HashShift(s, pos) => {
            let v = nodes_mut(&mut q, *s)?;
            if v.len() < 2 || *pos + 1 >= v.len() {
                return None;
            }
            let (a, b) = (v[*pos].clone(), v[*pos + 1].clone());
            if crate::refimpl::ft_sibling(a.index()) != b.index() || a.hash().len() != 32 || b.hash().len() != 32 {
                return None;
            }
            // left node (lower index) gets one byte more, right node one byte less
            let (l, r, li, ri) = if a.index() < b.index() { (a.clone(), b.clone(), *pos, *pos + 1) } else { (b.clone(), a.clone(), *pos + 1, *pos) };
            let mut lh = l.hash().to_vec();
            let mut rh = r.hash().to_vec();
            lh.push(rh.remove(0));
            v[li] = renode(&l, l.index(), l.len(), lh);
            v[ri] = renode(&r, r.index(), r.len(), rh);
        }
        Alt::SigFlip(byte, bit) => {
            let u = q.upgrade.as_mut()?;
            if u.signature.is_empty() {
                return None;
            }
            let i = byte % u.signature.len();
            u.signature[i] ^= 1 << (bit % 8);
        }
        Alt::SigTruncate => {
            q.upgrade.as_mut()?.signature.pop()?;
        }
        Alt::SigEmpty => {
            let u = q.upgrade.as_mut()?;
            if u.signature.is_empty() {
                return None;
            }
            u.signature.clear();
        }
        Alt::SigExtend => q.upgrade.as_mut()?.signature.push(0),
        Alt::Fork(d) => q.fork = add(q.fork, *d)?,
        Alt::UpStart(d) => {
            let u = q.upgrade.as_mut()?;
            u.start = add(u.start, *d)?;
        }
        Alt::UpLength(d) => {
            let u = q.upgrade.as_mut()?;
            u.length = add(u.length, *d)?;
        }
        Alt::UpShift(d) => {
            let u = q.upgrade.as_mut()?;
            let k = if *d == i64::MAX { u.start as i64 } else { *d };
            u.start = add(u.start, -k)?;
            u.length = add(u.length, k)?;
            if u.length == 0 {
                return None;
            }
        }
        Alt::BlockIndex(d) => {
            let b = q.block.as_mut()?;
            b.index = add(b.index, *d)?;
        }
        Alt::HashIndex(d) => {
            let b = q.hash.as_mut()?;
            b.index = add(b.index, *d)?;
        }
        Alt::SeekBytes(d) => {
            let b = q.seek.as_mut()?;
            b.bytes = add(b.bytes, *d)?;
        }
        Alt::NodeIndex(s, pos, d) => {
            let v = nodes_mut(&mut q, *s)?;
            if v.is_empty() {
                return None;
            }
            let i = pos % v.len();
            let n = v[i].clone();
            v[i] = renode(&n, add(n.index(), *d)?, n.len(), n.hash().to_vec());
        }
        Alt::NodeSize(s, pos, d) => {
            let v = nodes_mut(&mut q, *s)?;
            if v.is_empty() {
                return None;
            }
            let i = pos % v.len();
            let n = v[i].clone();
            v[i] = renode(&n, n.index(), add(n.len(), *d)?, n.hash().to_vec());
        }
        Alt::NodeDrop(s, pos) => {
            let v = nodes_mut(&mut q, *s)?;
            if v.is_empty() {
                return None;
            }
            let i = pos % v.len();
            v.remove(i);
        }
        Alt::NodeDup(s, pos) => {
            let v = nodes_mut(&mut q, *s)?;
            if v.is_empty() {
                return None;
            }
            let i = pos % v.len();
            let n = v[i].clone();
            v.insert(i, n);
        }
        Alt::NodeSwap(s, pos) => {
            let v = nodes_mut(&mut q, *s)?;
            if v.len() < 2 {
                return None;
            }
            let i = pos % (v.len() - 1);
            v.swap(i, i + 1);
        }
        Alt::NodeInsert(s, pos) => {
            let v = nodes_mut(&mut q, *s)?;
            let i = if v.is_empty() { 0 } else { pos % (v.len() + 1) };
            let idx = v.get(i.saturating_sub(1)).map(|n| n.index() + 2).unwrap_or(1);
            v.insert(i, Node::new(idx, vec![0x5a; 32], 3));
        }
        Alt::RemoveBlock => {
            q.block.take()?;
        }
        Alt::RemoveHash => {
            q.hash.take()?;
        }
        Alt::RemoveSeek => {
            q.seek.take()?;
        }
        Alt::RemoveUpgrade => {
            q.upgrade.take()?;
        }
    }
    if &q == p {
        None
    } else {
        Some(q)
    }
}

/// The alteration set for one honest proof: every field, every node position, `bits` random
/// bit positions per hash/value/signature. Excludes the size fields of the bottom nodes of
/// hash-only and seek sections (not authenticated individually by the scheme).
pub fn alterations(p: &Proof, r: &mut Rng, bits: usize) -> Vec<Alt> {
    let mut v = vec![];
    if let Some(b) = &p.block {
        for _ in 0..bits {
            v.push(Alt::ValueFlip(r.below(b.value.len().max(1) as u64) as usize, r.below(8) as u8));
        }
        v.push(Alt::ValueExtend);
        v.push(Alt::ValueTruncate);
        v.push(Alt::BlockIndex(1));
        v.push(Alt::BlockIndex(-1));
        v.push(Alt::RemoveBlock);
    }
    if p.hash.is_some() {
        v.push(Alt::HashIndex(1));
        v.push(Alt::HashIndex(-1));
        v.push(Alt::RemoveHash);
    }
    if p.seek.is_some() {
        v.push(Alt::SeekBytes(1));
        v.push(Alt::SeekBytes(-1));
        v.push(Alt::RemoveSeek);
    }
    if p.upgrade.is_some() {
        for _ in 0..bits {
            v.push(Alt::SigFlip(r.below(64) as usize, r.below(8) as u8));
        }
        v.push(Alt::SigTruncate);
        v.push(Alt::SigEmpty);
        v.push(Alt::SigExtend);
        for d in [1i64, -1] {
            v.push(Alt::UpStart(d));
            v.push(Alt::UpLength(d));
        }
        // same claimed length, other split point: one and two below, all the way down to 0, one above
        for d in [1i64, 2, i64::MAX, -1] {
            v.push(Alt::UpShift(d));
        }
        v.push(Alt::RemoveUpgrade);
    }
    v.push(Alt::Fork(1));
    v.push(Alt::Fork(-1));
    for s in SECTS {
        let Some(nodes) = nodes_of(p, s) else { continue };
        for pos in 0..nodes.len() {
            for _ in 0..bits {
                v.push(Alt::HashFlip(s, pos, r.below(32) as usize, r.below(8) as u8));
            }
            for d in [1i64, -1] {
                v.push(Alt::NodeIndex(s, pos, d));
                let bottom_unauthenticated = pos == 0 && (s == Sect::Seek || (s == Sect::Hash && p.block.is_none()));
                if !bottom_unauthenticated {
                    v.push(Alt::NodeSize(s, pos, d));
                }
            }
            v.push(Alt::NodeDrop(s, pos));
            v.push(Alt::NodeDup(s, pos));
            if pos + 1 < nodes.len() {
                v.push(Alt::NodeSwap(s, pos));
                v.push(Alt::HashShift(s, pos));
            }
        }
        for pos in 0..=nodes.len() {
            v.push(Alt::NodeInsert(s, pos));
        }
    }
    v
}

/// Boundary values around `l` (numeric fields stay below 2^40).
pub fn boundary_values(l: u64) -> Vec<u64> {
    let mut v = vec![0, 1, l.saturating_sub(1), l, l + 1, (2 * l).saturating_sub(1), 2 * l, 2 * l + 1, (1 << 32) - 1, 1 << 32, (1 << 40) - 1];
    v.sort();
    v.dedup();
    v
}

fn rand_node(r: &mut Rng, l: u64) -> Node {
    let bv = boundary_values(2 * l.max(1));
    let idx = if r.chance(1, 2) { *r.pick(&bv) } else { r.below(4 * l.max(1) + 4) };
    let len = if r.chance(1, 3) { *r.pick(&bv) } else { r.below(64) };
    let hash = match r.below(4) {
        0 => vec![0u8; 32],
        1 => { let n = r.below(40) as usize; r.bytes(n) },
        _ => r.bytes(32),
    };
    Node::new(idx, hash, len)
}

/// A structurally arbitrary proof for a core of length `l`.
pub fn arbitrary_proof(r: &mut Rng, l: u64, byte_len: u64) -> Proof {
    let bl = boundary_values(l);
    let nodes = |r: &mut Rng| -> Vec<Node> { (0..r.below(9)).map(|_| rand_node(r, l)).collect() };
    let block = if r.chance(1, 2) {
        Some(DataBlock {
            index: if r.chance(1, 2) { *r.pick(&bl) } else { r.below(l.max(1) + 2) },
            value: { let n = r.below(40) as usize; r.bytes(n) },
            nodes: nodes(r),
        })
    } else {
        None
    };
    let hash = if r.chance(1, 3) {
        Some(DataHash {
            index: if r.chance(1, 2) { *r.pick(&boundary_values(2 * l)) } else { r.below(2 * l.max(1) + 2) },
            nodes: nodes(r),
        })
    } else {
        None
    };
    let seek = if r.chance(1, 3) {
        Some(DataSeek {
            bytes: if r.chance(1, 2) { *r.pick(&boundary_values(byte_len)) } else { r.below(byte_len.max(1) + 2) },
            nodes: nodes(r),
        })
    } else {
        None
    };
    let upgrade = if r.chance(1, 2) {
        Some(DataUpgrade {
            start: if r.chance(1, 2) { l } else { *r.pick(&bl) },
            length: if r.chance(1, 4) { 0 } else if r.chance(1, 2) { *r.pick(&bl) } else { r.below(8) },
            nodes: nodes(r),
            additional_nodes: nodes(r),
            signature: match r.below(4) {
                0 => vec![],
                1 => { let n = r.below(70) as usize; r.bytes(n) },
                _ => r.bytes(64),
            },
        })
    } else {
        None
    };
    Proof {
        fork: if r.chance(1, 8) { r.below(3) } else { 0 },
        block,
        hash,
        seek,
        upgrade,
    }
}
