//! C01 — log contents equal an append-only list model, across close and reopen.

use crate::framework::{Ctx, Spec, Tier};
use crate::gen;
use crate::model::CMP_ALL;
use crate::ops::{self, CacheMode, Fail, Op, Sut};
use crate::refimpl;
use serde_json::json;

pub static SPEC: Spec = Spec {
    id: "C01",
    level: "exploration",
    fixed_cases,
    random_secs: |t| t.pick(12, 150),
    random_cap: |t| t.pick(200_000, 5_000_000),
    run_case,
    required: &[
        "reopen_replayed_flags_14",
        "reopen_replayed_flags_8",
        "reopen_unflushed_0",
        "reopen_unflushed_1",
        "reopen_unflushed_2",
        "reopen_unflushed_3",
        "empty_block_read_back",
        "reopen_bitfield_pages_2",
        "reopen_bitfield_pages_3",
        "clear_beyond_length",
        "empty_block_at_truncated_tail",
    ],
    rule: "cases = chunks of the bounded-exhaustive enumeration of symbol sequences over the 8-symbol alphabet {append-empty, append-tagged, empty-batch, batch3-with-empty, clear-front, clear-tail, clear-beyond, reopen} (L=5 quick, L=7 thorough), directed scenarios (reopen after 0-5 unflushed ops of each kind, empty block after truncating clear, 33k/70k-block cores), then seeded-random histories <= 200 ops; every op result and a full observation (info, has, get of all indices < length+2 plus far probes) is compared with the list model after EVERY op; a history is non-trivial if it contains a clear or a reopen that replayed >=1 unflushed oplog entry; distinct = distinct op-sequence hash",
    assumptions: &[
        "storage semantics of the instrumented backend equal those of random-access-memory 3.0.0 / random-access-disk 3.0.1 (checked differentially in C14)",
        "writer cores only (replicas: C03); clear end bounded to 3 bitfield pages beyond the length",
    ],
    exhaustive_note: "all symbol sequences of length L over the 8-symbol alphabet (inapplicable clears skipped); every prefix is checked because the oracle runs after every op",
    hang_secs: 240,
};

fn exh_len(t: Tier) -> usize {
    t.pick(5, 7)
}
fn exh_prefix(t: Tier) -> usize {
    t.pick(2, 3)
}
fn n_chunks(t: Tier) -> u64 {
    (gen::ALPHABET as u64).pow(exh_prefix(t) as u32)
}

fn fixed_cases(t: Tier) -> u64 {
    n_chunks(t) + directed(t).len() as u64
}

/// Directed histories (each also exercised with the oracle after every op).
fn directed(t: Tier) -> Vec<(u32, Vec<Op>)> {
    let mut v: Vec<(u32, Vec<Op>)> = vec![];
    // reopen after k unflushed ops of each kind, from each flush phase
    let mut tag = 1000u32;
    for kind in 0..4 {
        for pre in 0..4u32 {
            for k in 0..=5u32 {
                let mut ops = vec![];
                for _ in 0..pre + 1 {
                    ops.push(Op::Append(tag, 6));
                    tag += 1;
                }
                let mut len = (pre + 1) as u64;
                for j in 0..k {
                    match kind {
                        0 => {
                            ops.push(Op::Append(tag, 3 + j));
                            tag += 1;
                            len += 1;
                        }
                        1 => ops.push(Op::Clear((j as u64) % len, (j as u64) % len + 1)),
                        2 => {
                            ops.push(Op::Batch(vec![(tag, 0), (tag + 1, 7)]));
                            tag += 2;
                            len += 2;
                        }
                        _ => {
                            if j % 2 == 0 {
                                ops.push(Op::Append(tag, 5));
                                tag += 1;
                                len += 1;
                            } else {
                                ops.push(Op::Clear(len - 1, len + 1));
                            }
                        }
                    }
                }
                ops.push(Op::Reopen);
                ops.push(Op::Append(tag, 4));
                tag += 1;
                ops.push(Op::Reopen);
                v.push((64, ops));
            }
        }
    }
    // D11 shape: empty block at the end of the log after a clear that truncated the data file
    v.push((
        64,
        vec![
            Op::Batch(vec![(1, 1), (2, 2), (3, 3), (4, 0)]),
            Op::Clear(1, 3),
            Op::Get(3),
            Op::Reopen,
            Op::Get(3),
        ],
    ));
    v.push((
        64,
        vec![Op::Append(1, 5), Op::Append(2, 7), Op::Append(3, 0), Op::Clear(1, 2), Op::Get(2), Op::Reopen, Op::Get(2), Op::Append(4, 0), Op::Get(3)],
    ));
    // the probe scenario: six appends, clear(1,2), reopen
    v.push((
        64,
        vec![
            Op::Append(1, 3),
            Op::Append(2, 3),
            Op::Append(3, 3),
            Op::Append(4, 3),
            Op::Append(5, 3),
            Op::Append(6, 3),
            Op::Clear(1, 2),
            Op::Reopen,
            Op::Get(1),
        ],
    ));
    // large cores crossing one and two bitfield pages
    let big = |n: u32, base: u32| -> Op { Op::Batch((0..n).map(|i| (base + i, 1)).collect()) };
    v.push((
        48,
        vec![
            big(33_000, 1),
            Op::Reopen,
            Op::Clear(32_760, 32_775),
            Op::Reopen,
            Op::Append(900_001, 9),
            Op::Clear(8_190, 8_194),
            Op::Reopen,
            Op::Get(32_768),
            Op::Get(32_999),
        ],
    ));
    v.push((
        48,
        vec![
            big(40_000, 1),
            big(30_000, 100_000),
            Op::Reopen,
            Op::Clear(65_530, 65_540),
            Op::Append(900_002, 5),
            Op::Reopen,
            Op::Clear(69_990, 70_001 + 3 * 32768),
            Op::Reopen,
            Op::Append(900_003, 0),
            Op::Reopen,
        ],
    ));
    if t == Tier::Thorough {
        v.push((
            48,
            vec![big(40_000, 1), Op::Reopen, big(40_000, 200_000), Op::Reopen, big(20_000, 400_000), Op::Clear(98_300, 98_310), Op::Reopen, Op::Get(98_304), Op::Get(99_999)],
        ));
    }
    // clear with an astronomically large end: blocks at or beyond the length do not exist, so
    // this is the same as clearing up to the length and must terminate
    v.push((64, vec![Op::Append(1, 4), Op::Append(2, 4), Op::Append(3, 4), Op::Clear(1, 1 << 40), Op::Reopen, Op::Append(4, 4), Op::Clear(0, u64::MAX), Op::Reopen]));
    // clear with end beyond the length by up to three pages
    for extra in [1u64, 32_768, 65_536, 98_303] {
        v.push((64, vec![Op::Append(1, 4), Op::Append(2, 4), Op::Append(3, 4), Op::Clear(1, 3 + extra), Op::Reopen, Op::Append(4, 4), Op::Reopen]));
    }
    v
}

/// Run one history with C01's monitors; records coverage counters into ctx.
pub fn run_one(ctx: &mut Ctx, ops: &[Op], get_cap: u64, key_seed: u64) -> bool {
    let mut nontrivial = false;
    let mut cov: Vec<String> = vec![];
    // pre-scan for coverage that depends only on the history
    let res = {
        let cov = &mut cov;
        let nontrivial = &mut nontrivial;
        run_with_coverage(ops, get_cap, key_seed, cov, nontrivial)
    };
    for c in cov {
        ctx.count(&c);
    }
    let h = ops::ops_hash(ops);
    ctx.eval(if nontrivial { Some(h) } else { None });
    match res {
        Ok(()) => true,
        Err((i, f)) => {
            // locally minimal history with the same violation signature (for the replay file)
            let heavy = ops.iter().any(|o| matches!(o, Op::Batch(b) if b.len() > 500));
            let minimal = if heavy || ctx.violations.iter().filter(|v| v.sig == f.sig).count() >= 1 {
                ops[..=i.min(ops.len() - 1)].to_vec()
            } else {
                let sig = f.sig.clone();
                gen::minimize(
                    &ops[..=i.min(ops.len() - 1)],
                    |cand| {
                        let mut c = vec![];
                        let mut nt = false;
                        matches!(run_with_coverage(cand, get_cap, key_seed, &mut c, &mut nt), Err((_, f2)) if f2.sig == sig)
                    },
                    400,
                )
            };
            ctx.violate(
                f.sig.clone(),
                format!("at op #{i}: {} | minimal history with the same signature: {}", f.detail, ops::ops_to_json(&minimal)),
                json!({"kind":"history","key_seed":key_seed,"ops":ops::ops_to_json(ops),"failed_at":i,"minimal_ops":ops::ops_to_json(&minimal)}),
            );
            false
        }
    }
}

fn run_with_coverage(
    ops: &[Op],
    get_cap: u64,
    key_seed: u64,
    cov: &mut Vec<String>,
    nontrivial: &mut bool,
) -> Result<(), (usize, Fail)> {
    // We need coverage information *before* each reopen, so drive the Sut by hand.
    let world = crate::world::World::new();
    let mut sut = Sut::create(key_seed, world, CacheMode::None).map_err(|f| (0, f))?;
    sut.get_cap = get_cap;
    sut.cmp_mask = CMP_ALL;
    // every third reopen of seeded-random histories goes through a plain build() on the
    // existing storage (no key pair, no open flag): stored key and state must win
    if key_seed > 1000 {
        sut.plain_reopen_every = 3;
    }
    sut.check("after build").map_err(|f| (0, f))?;
    let mut data_len_after_trunc: Option<u64> = None;
    for (i, op) in ops.iter().enumerate() {
        let before = if matches!(op, Op::Reopen) {
            // coverage: what is sitting unflushed in the oplog right now
            let files = crate::world::snapshot(&sut.world);
            if let Some(o) = refimpl::read_oplog(&files[3]) {
                let n = o.entries.len().min(3);
                cov.push(format!("reopen_unflushed_{n}"));
                if !o.entries.is_empty() {
                    *nontrivial = true;
                }
                for f in &o.entry_flags {
                    cov.push(format!("reopen_replayed_flags_{f}"));
                }
            }
            let pages = (files[2].len() + 4095) / 4096;
            cov.push(format!("reopen_bitfield_pages_{}", pages.min(4)));
            let cap = sut.get_cap;
            Some(crate::model::observe(sut.core(), cap))
        } else {
            None
        };
        if let Op::Clear(s, e) = op {
            *nontrivial = true;
            if *e > sut.model.length() {
                cov.push("clear_beyond_length".into());
            }
            let _ = s;
        }
        sut.step(op).map_err(|mut f| {
            f.sig = format!("step:{}", f.sig);
            (i, f)
        })?;
        if let Op::Clear(..) = op {
            data_len_after_trunc = Some(crate::world::snapshot(&sut.world)[1].len() as u64);
        }
        if let Op::Get(ix) = op {
            if sut.model.get(*ix).map(|b| b.is_empty()).unwrap_or(false) {
                cov.push("empty_block_read_back".into());
            }
        }
        let o = sut.check(&format!("after op #{i} {}", op.kind())).map_err(|mut f| {
            f.sig = format!("after-{}:{}", op.kind(), f.sig);
            (i, f)
        })?;
        // coverage: an empty block whose offset lies beyond the end of the data file was read
        if let Some(dl) = data_len_after_trunc {
            let m = &sut.model;
            for (ix, b) in m.blocks.iter().enumerate() {
                if let Some(b) = b {
                    if b.is_empty() {
                        let off: u64 = m.sizes[..ix].iter().sum();
                        if off > dl && (ix as u64) < o.get.len() as u64 {
                            cov.push("empty_block_at_truncated_tail".into());
                            cov.push("empty_block_read_back".into());
                            break;
                        }
                    }
                }
            }
            if matches!(op, Op::Append(..) | Op::Batch(..)) {
                data_len_after_trunc = None;
            }
        }
        if o.get.iter().any(|(_, g)| matches!(g, crate::model::Got::Some { len: 0, .. })) {
            cov.push("empty_block_read_back".into());
        }
        if let Some(b) = before {
            if b != o {
                return Err((
                    i,
                    ops::fail(
                        "reopen-changed-observation",
                        format!("before: {} after: {}", ops::short_obs(&b), ops::short_obs(&o)),
                    ),
                ));
            }
        }
    }
    Ok(())
}

fn run_case(ctx: &mut Ctx, id: u64) {
    let t = ctx.tier;
    let nch = n_chunks(t);
    let alphabet: Vec<u8> = (0..gen::ALPHABET as u8).collect();
    if id < nch {
        let prefix = gen::prefix_of_chunk(id, exh_prefix(t), &alphabet);
        let l = exh_len(t);
        let mut seqs: Vec<Vec<u8>> = vec![];
        gen::for_each_sequence(&prefix, l, &alphabet, |s| seqs.push(s.to_vec()));
        for s in seqs {
            if let Some(ops) = gen::concretize(&s) {
                ctx.count("exhaustive_histories");
                if !run_one(ctx, &ops, 64, 7) {
                    ctx.sample(|| json!({"symbols": s, "ops": ops::ops_to_json(&ops)}));
                    if ctx.violations.len() > 8 {
                        return;
                    }
                }
                if ctx.evaluations % 9973 == 1 {
                    ctx.sample(|| json!({"kind":"exhaustive","symbols": s.iter().map(|x| gen::SYMBOL_NAMES[*x as usize]).collect::<Vec<_>>()}));
                }
            } else {
                ctx.count("exhaustive_skipped_inapplicable");
            }
        }
        return;
    }
    let d = directed(t);
    let di = (id - nch) as usize;
    if di < d.len() {
        let (cap, ops) = &d[di];
        ctx.count("directed_histories");
        run_one(ctx, ops, *cap as u64, 11 + di as u64);
        return;
    }
    // seeded-random
    let mut r = ctx.case_rng(id);
    let cfg = gen::RandCfg {
        max_ops: if r.chance(1, 6) { 200 } else { 50 },
        big_batch: if r.chance(1, 40) { 40_000 } else if r.chance(1, 6) { 300 } else { 0 },
        max_block: if r.chance(1, 5) { 12288 } else { 600 },
        ..Default::default()
    };
    let ops = gen::random_history(&mut r, &cfg);
    let key_seed = r.next_u64();
    ctx.count("random_histories");
    let ok = run_one(ctx, &ops, 48, key_seed);
    if ok && id % 4001 == 0 {
        ctx.sample(|| json!({"kind":"random","ops": ops::ops_to_json(&ops[..ops.len().min(25)])}));
    }
}
