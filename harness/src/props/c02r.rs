//! Replica-side crash enumeration for C02: the journaled core is a replica applying honest
//! proofs from an uncrashed writer.

use crate::crash::{self, CrashOpts, Mode, Recorded};
use crate::framework::Ctx;
use crate::model::{CMP_ALL, CMP_HAS};
use crate::ops::{CacheMode, Op};
use crate::repl::{self, Pair, Plan, RoundResult};
use crate::rng::Rng;
use serde_json::json;

pub const N_REPLICA_FIXED: u64 = 24;

pub fn replica_case(ctx: &mut Ctx, id: u64, r: &mut Rng) {
    replica_case_mode(ctx, id, r, Mode::Crash)
}

pub fn replica_case_mode(ctx: &mut Ctx, id: u64, r: &mut Rng, mode: Mode) {
    let key_seed = 900 + id;
    let mut pair = match Pair::new(key_seed, CacheMode::None) {
        Ok(p) => p,
        Err(f) => {
            ctx.violate(format!("replica-setup:{}", f.sig), f.detail, json!({"kind":"case"}));
            return;
        }
    };
    {
        let mut w = pair.replica.world.lock().unwrap();
        w.journaling = true;
        w.call_id = 0;
    }
    // the replica's build() already ran unjournaled: re-create it on a journaling world
    let world = crate::world::World::new();
    {
        let mut w = world.lock().unwrap();
        w.journaling = true;
    }
    pair.replica = match repl::Replica::create_on(world.clone(), &pair.writer.key, CacheMode::None) {
        Ok(x) => x,
        Err(f) => {
            ctx.violate(format!("replica-setup:{}", f.sig), f.detail, json!({"kind":"case"}));
            return;
        }
    };
    let mut states = vec![pair.replica.model.clone()];
    let mut kinds = vec!["build".to_string()];
    let mut rwu = vec![false];
    let mut plans_log = vec![];
    let rounds = 1 + (id % 3);
    let mut tag = 1u32;
    let mut call = 0u64;
    'outer: for round in 0..rounds {
        // writer grows (and sometimes clears)
        let n = 1 + r.below(6);
        let mut wops = vec![];
        for _ in 0..n {
            wops.push(Op::Append(tag, crate::gen::rand_block_len(r, 60)));
            tag += 1;
        }
        if r.chance(1, 3) && pair.writer.model.length() > 0 {
            let s = r.below(pair.writer.model.length());
            wops.push(Op::Clear(s, s + 1));
        }
        if let Err(f) = repl::apply_writer_ops(&mut pair.writer, &wops) {
            ctx.violate(format!("replica-setup:{}", f.sig), f.detail, json!({"kind":"case"}));
            return;
        }
        // replica requests
        let nreq = 1 + r.below(5);
        for _ in 0..nreq {
            let rl = pair.replica.model.length();
            let wl = pair.writer.model.length();
            let plan = if id < N_REPLICA_FIXED && round == 0 && rl < wl {
                // directed first request: upgrade-only / block+upgrade / block after upgrade
                match id % 4 {
                    0 => Plan { upgrade: Some(wl - rl), ..Default::default() },
                    1 => Plan { upgrade: Some(wl - rl), block: Some(r.below(wl)), ..Default::default() },
                    2 => Plan { upgrade: Some(1.max((wl - rl) / 2)), ..Default::default() },
                    _ => repl::random_plan(r, rl, wl, &pair.writer.model, &pair.replica.model),
                }
            } else {
                repl::random_plan(r, rl, wl, &pair.writer.model, &pair.replica.model)
            };
            // seek + block inside upgrade is excluded (refused by design)
            call += 1;
            world.lock().unwrap().call_id = call;
            let shape = repl::shape(&plan, rl, wl);
            match pair.round(&plan) {
                Ok(RoundResult::Applied(p)) => {
                    // the uncrashed replica itself must show the model state, otherwise the
                    // scenario cannot serve as a reference (that would be a C03 violation)
                    if let Err(f) = pair.replica.check(CMP_HAS, 64, "uncrashed replica") {
                        ctx.count("replica_scenario_unusable");
                        ctx.notes.push(format!("uncrashed replica deviates from the model ({}): {}", f.sig, f.detail.chars().take(160).collect::<String>()));
                        break 'outer;
                    }
                    ctx.count(&format!("replica_entry:{}{}", if p.upgrade.is_some() { "upgrade" } else { "" }, if p.block.is_some() { "+block" } else { "" }));
                    states.push(pair.replica.model.clone());
                    kinds.push("proof".to_string());
                    rwu.push(false);
                    plans_log.push(plan.to_json());
                }
                Ok(RoundResult::NoProofCleared) => {
                    call -= 1;
                }
                Err(f) => {
                    // honest proof not accepted: C03's business; here the scenario is unusable.
                    // Known C03-class defects must not mask C02: count and stop this case.
                    ctx.count(&format!("replica_round_failed:{}", shape));
                    ctx.notes.push(format!("replica round failed ({}): {}", f.sig, f.detail.chars().take(200).collect::<String>()));
                    break 'outer;
                }
            }
            if r.chance(1, 5) {
                call += 1;
                world.lock().unwrap().call_id = call;
                let unfl = crate::world::snapshot(&world)[3].len() > 8192;
                if let Err(f) = pair.replica.reopen() {
                    ctx.violate(format!("replica-uncrashed:{}", f.sig), f.detail, json!({"kind":"case"}));
                    return;
                }
                states.push(pair.replica.model.clone());
                kinds.push("reopen".to_string());
                rwu.push(unfl);
                plans_log.push(json!("reopen"));
            }
        }
    }
    let (mut journal, total_ops) = {
        let mut w = world.lock().unwrap();
        (std::mem::take(&mut w.journal), w.op_counter)
    };
    // operations of a call that was abandoned (scenario unusable) are not part of the history
    let ncalls = kinds.len() as u64;
    journal.retain(|e| e.call_id < ncalls);
    let rec = Recorded {
        journal,
        states,
        kinds,
        key_seed,
        reopen_with_unflushed: rwu,
        total_ops,
        label: json!({"replica_case": id, "plans": plans_log}),
    };
    let before = ctx.counters.get("crash_points").copied().unwrap_or(0);
    let o = CrashOpts {
        mode,
        mask: CMP_ALL,
        get_cap: 64,
        only: None,
        only_kind: None,
        prop: ctx.prop,
        continuation: true,
    };
    // on every recovered replica, honest replication from the (uncrashed) writer must still
    // complete: upgrade to the writer's length and fetch every block that is missing
    let mut writer = pair.writer;
    let mut completions = 0u64;
    {
        let mut extra = |s: &mut crate::ops::Sut| -> Result<(), crate::ops::Fail> {
            let mut rep = repl::Replica { world: s.world.clone(), core: s.core.take(), model: s.model.clone(), cache: CacheMode::None };
            repl::complete(&mut writer, &mut rep).map_err(|f| crate::ops::fail(format!("replica-completion-after-crash:{}", f.sig), f.detail))?;
            rep.check(CMP_HAS, 64, "replica completed after crash recovery").map_err(|f| crate::ops::fail(format!("replica-completion-after-crash:{}", f.sig), f.detail))?;
            completions += 1;
            Ok(())
        };
        crash::enumerate_with(ctx, &rec, &o, r, Some(&mut extra));
    }
    ctx.add("replica_completions_after_crash", completions);
    let after = ctx.counters.get("crash_points").copied().unwrap_or(0);
    ctx.add("replica_crash_points", after - before);
    ctx.count("replica_histories");
}
