//! C10 — a storage error surfaces as an error and is recoverable by reopening.

use crate::crash::recover_and_match;
use crate::framework::{Ctx, Spec, Tier};
use crate::gen;
use crate::model::*;
use crate::ops::{self, model_after, CacheMode, Op, Sut};
use crate::repl::{self, Pair, Plan};
use crate::rng::Rng;
use crate::world::{World, STORE_NAMES};
use serde_json::json;

pub static SPEC: Spec = Spec {
    id: "C10",
    level: "fault_enumeration",
    fixed_cases: |t| n_chunks(t) + directed().len() as u64 + N_REPLICA,
    random_secs: |t| t.pick(15, 240),
    random_cap: |t| t.pick(100_000, 3_000_000),
    run_case,
    required: &[
        "fault:reopen:oplog.read",
        "fault:reopen:tree.read",
        "fault:reopen:bitfield.read",
        "fault:append:data.write",
        "fault:append:oplog.write",
        "fault:append:bitfield.write",
        "fault:append:tree.write",
        "fault:append:oplog.truncate",
        "fault:clear:data.del",
        "fault:clear:oplog.write",
        "fault:get:data.read",
        "fault:get:tree.read",
        "fault:make_read_only:oplog.write",
        "fault:proof:tree.read",
        "fault:proof:data.write",
        "fault:proof:oplog.write",
        "fault:create_proof:tree.read",
        "fault:create_proof:data.read",
        "fault:build:oplog.write",
        "fault:replica-reopen:oplog.read",
        "fault:replica-reopen:tree.read",
    ],
    rule: "a case = one history; for EVERY storage-operation index k of the clean run (reads and length queries included) the history is re-run on fresh storage with exactly operation k failing (not applied, IO error); the public call in progress must return Err (never Ok, never panic); then the instance is dropped, storage reopened with faults off, and the observation must equal the model before or after that call; the rest of the history must then satisfy the C01 oracle after every op; replica variant: faults in the replica while applying honest proofs and in the writer while creating them; evaluations = (history, k) pairs",
    assumptions: &[
        "a failed operation has no effect on the store (it is not applied) and later operations succeed",
        "that the failed call stops issuing mutating operations is recorded (muts_after_fail) but the verdict rests on the recovered state",
    ],
    exhaustive_note: "all k per history; histories exhaustive for L<=3 (quick) / L<=4 (thorough) over the 8-symbol alphabet followed by a fixed get/reopen tail",
    hang_secs: 180,
};

const N_REPLICA: u64 = 16;

fn n_chunks(_t: Tier) -> u64 {
    64
}

fn directed() -> Vec<Vec<Op>> {
    let a = |t: u32| Op::Append(t, 5 + t % 3);
    vec![
        vec![a(1), a(2), a(3), Op::Get(1), Op::Clear(1, 2), Op::Get(0), Op::Reopen, Op::Get(2), a(4), a(5), a(6), Op::MakeReadOnly, Op::Reopen, Op::Get(3)],
        vec![a(1), Op::Batch(vec![(2, 0), (3, 9), (4, 1)]), Op::Reopen, Op::Clear(0, 2), a(5), Op::Get(3), Op::Reopen, Op::Get(4)],
        vec![a(1), a(2), a(3), a(4), a(5), a(6), a(7), Op::Get(6), Op::Get(0), Op::Clear(2, 5), Op::Reopen, a(8), Op::Get(7)],
        vec![a(1), a(2), Op::MakeReadOnly, a(3), Op::Get(1), Op::Reopen, Op::Get(0)],
    ]
}

struct CleanRun {
    total_ops: u64,
    /// for each call (0 = build): first op index
    call_start: Vec<u64>,
}

fn clean_run(key_seed: u64, ops: &[Op]) -> Result<CleanRun, (usize, ops::Fail)> {
    let world = World::new();
    let mut sut = Sut::create(key_seed, world.clone(), CacheMode::None).map_err(|f| (0, f))?;
    sut.plain_reopen_every = 2;
    let mut call_start = vec![0u64];
    for (i, op) in ops.iter().enumerate() {
        call_start.push(world.lock().unwrap().op_counter);
        sut.step(op).map_err(|f| (i, f))?;
    }
    let total_ops = world.lock().unwrap().op_counter;
    Ok(CleanRun { total_ops, call_start })
}

fn fault_name(kind: &str, d: &crate::world::OpDesc) -> String {
    format!("fault:{}:{}.{}", kind, STORE_NAMES[d.store], d.kind)
}

/// One faulted run. Returns Err(sig, detail) on violation.
fn faulted_run(ctx: &mut Ctx, key_seed: u64, ops: &[Op], k: u64) -> Result<(), (String, String)> {
    let world = World::new();
    world.lock().unwrap().fail_at = Some(k);
    let created = Sut::create(key_seed, world.clone(), CacheMode::None);
    let fired = |w: &std::sync::Arc<std::sync::Mutex<World>>| w.lock().unwrap().failed.clone();
    let mut sut = match created {
        Ok(mut s) => {
            // every second reopen is a plain build() (no key pair, no open flag) on the existing
            // stores: a failing read must surface there too instead of yielding a fresh core
            s.plain_reopen_every = 2;
            if let Some(d) = fired(&world) {
                return Err((format!("fault-swallowed:build:{}.{}", STORE_NAMES[d.store], d.kind), format!("build() returned Ok although storage operation {k} failed")));
            }
            s
        }
        Err(f) => {
            let Some(d) = fired(&world) else {
                return Err((format!("spurious:{}", f.sig), f.detail));
            };
            ctx.count(&fault_name("build", &d));
            if f.sig.contains(":panic:") {
                return Err((format!("panic-on-fault:{}", f.sig), f.detail));
            }
            // recover: either no core, or the empty core
            world.lock().unwrap().fail_at = None;
            let files = crate::world::snapshot(&world);
            let empty = Model::new(true);
            return match recover_and_match(files, &[&empty], true, key_seed, CMP_ALL, 64, false) {
                Ok(_) => Ok(()),
                Err(fl) => Err((format!("after-build-fault:{}", fl.sig), fl.detail)),
            };
        }
    };
    for (i, op) in ops.iter().enumerate() {
        let before = sut.model.clone();
        let r = sut.step(op);
        let f = fired(&world);
        match (r, f) {
            (Ok(()), None) => continue,
            (Ok(()), Some(d)) => {
                return Err((
                    format!("fault-swallowed:{}:{}.{}", op.kind(), STORE_NAMES[d.store], d.kind),
                    format!("{} (op #{i}) returned Ok although storage operation {k} ({} {}) failed", op.kind(), STORE_NAMES[d.store], d.kind),
                ));
            }
            (Err(fl), None) => return Err((format!("spurious:{}", fl.sig), format!("op #{i}: {}", fl.detail))),
            (Err(fl), Some(d)) => {
                ctx.count(&fault_name(op.kind(), &d));
                if fl.sig.contains("panic") {
                    return Err((format!("panic-on-fault:{}", fl.sig), format!("op #{i}: {}", fl.detail)));
                }
                if !fl.sig.contains(":err:") && !fl.sig.starts_with("get-err") {
                    // a wrong value rather than an error
                    return Err((format!("wrong-result-on-fault:{}", fl.sig), format!("op #{i}: {}", fl.detail)));
                }
                let muts = world.lock().unwrap().muts_after_fail;
                ctx.add("muts_after_fail", muts);
                // drop, reopen with faults off
                world.lock().unwrap().fail_at = None;
                sut.core = None;
                let after = model_after(&before, op);
                let files = crate::world::snapshot(&world);
                let rec = recover_and_match(files, &[&before, &after], false, key_seed, CMP_ALL, 64, false)
                    .map_err(|fl| (format!("after-{}-fault@{}.{}:{}", op.kind(), STORE_NAMES[d.store], d.kind, fl.sig), format!("op #{i} {:?} failed at storage op {k}; after reopen: {}", op, fl.detail)))?;
                let mut s2 = rec.unwrap();
                if s2.model == after && before != after {
                    ctx.count("recovered_after_state");
                } else {
                    ctx.count("recovered_before_state");
                }
                // rest of the history satisfies C01
                s2.cmp_mask = CMP_ALL;
                for (j, op2) in ops[i + 1..].iter().enumerate() {
                    // the history was generated for the un-faulted run; when the failed call was
                    // not applied a later clear may start at or beyond the length, which is
                    // outside the property's precondition (start < length)
                    if let Op::Clear(cs, _) = op2 {
                        if *cs >= s2.model.length() {
                            continue;
                        }
                    }
                    s2.step(op2).map_err(|fl| (format!("rest:{}", fl.sig), format!("after fault at storage op {k} in op #{i}, later op #{} {:?}: {}", i + 1 + j, op2, fl.detail)))?;
                    s2.check("rest").map_err(|fl| (format!("rest:{}", fl.sig), format!("after fault at storage op {k} in op #{i}, after later op #{}: {}", i + 1 + j, fl.detail)))?;
                }
                s2.reopen().map_err(|fl| (format!("rest:{}", fl.sig), fl.detail))?;
                s2.check("final").map_err(|fl| (format!("rest-final:{}", fl.sig), fl.detail))?;
                if k % 53 == 7 {
                    ctx.sample(|| json!({"kind":"fault","ops":ops::ops_to_json(ops),"failed_storage_op_index":k,"failed_op":format!("{}.{}", STORE_NAMES[d.store], d.kind),"during_call":format!("#{i} {:?}", op),"call_result":fl.sig,"verdict":"Err returned; reopen gave the before-or-after state; rest of history ok"}));
                }
                return Ok(());
            }
        }
    }
    // the fault index was never reached (k beyond the ops of this run): fine
    ctx.count("fault_not_reached");
    Ok(())
}

fn fault_history(ctx: &mut Ctx, key_seed: u64, ops: &[Op]) {
    let clean = match clean_run(key_seed, ops) {
        Ok(c) => c,
        Err((i, f)) => {
            ctx.violate(format!("clean-run:{}", f.sig), format!("op #{i}: {}", f.detail), json!({"kind":"history","ops":ops::ops_to_json(ops)}));
            return;
        }
    };
    ctx.count("histories");
    let _ = &clean.call_start;
    let mut bad = 0;
    for k in 0..clean.total_ops {
        ctx.count("fault_points");
        ctx.eval(Some(crate::rng::fnv(format!("{}|{k}", ops::ops_hash(ops)).as_bytes())));
        if let Err((sig, detail)) = faulted_run(ctx, key_seed, ops, k) {
            ctx.violate(sig, detail, json!({"kind":"fault","key_seed":key_seed,"ops":ops::ops_to_json(ops),"fail_at":k}));
            bad += 1;
            if bad > 4 {
                return;
            }
        }
    }
}

/// Replica variant: faults in the replica while applying honest proofs, and in the writer
/// while creating them.
fn replica_faults(ctx: &mut Ctx, id: u64, r: &mut Rng) {
    let key_seed = 4000 + id;
    // script: writer ops and plans, fixed up front so that every re-run is identical
    let mut script: Vec<(Vec<Op>, Vec<u64>)> = vec![]; // (writer ops, plan seeds)
    let mut tag = 1u32;
    for _ in 0..(1 + id % 2) {
        let mut w = vec![];
        for _ in 0..(2 + r.below(4)) {
            w.push(Op::Append(tag, gen::rand_block_len(r, 40)));
            tag += 1;
        }
        let seeds = (0..(2 + r.below(4))).map(|_| r.next_u64()).collect();
        script.push((w, seeds));
    }
    // run(fault_in: 0 = none, 1 = replica, 2 = writer; k)
    let run = |ctx: &mut Ctx, side: u8, k: Option<u64>| -> Result<(u64, u64), (String, String)> {
        let mut pair = Pair::new(key_seed, CacheMode::None).map_err(|f| (f.sig, f.detail))?;
        if let Some(k) = k {
            let w = if side == 1 { &pair.replica.world } else { &pair.writer.world };
            let base = w.lock().unwrap().op_counter;
            w.lock().unwrap().fail_at = Some(base + k);
        }
        let base_r = pair.replica.world.lock().unwrap().op_counter;
        let base_w = pair.writer.world.lock().unwrap().op_counter;
        for (wops, seeds) in &script {
            for op in wops {
                let before = pair.writer.model.clone();
                let res = pair.writer.step(op);
                let fired = pair.writer.world.lock().unwrap().failed.clone();
                if let Some(d) = fired {
                    // writer-side append fault: covered by the writer histories; just make sure it is an error
                    if res.is_ok() {
                        return Err((format!("fault-swallowed:{}:{}.{}", op.kind(), STORE_NAMES[d.store], d.kind), "writer op returned Ok despite fault".into()));
                    }
                    let _ = before;
                    return Ok((0, 0));
                }
                res.map_err(|f| (format!("spurious:{}", f.sig), f.detail))?;
            }
            for s in seeds {
                let mut pr = Rng::new(*s);
                let rl = pair.replica.model.length();
                let wl = pair.writer.model.length();
                let plan: Plan = repl::random_plan(&mut pr, rl, wl, &pair.writer.model, &pair.replica.model);
                let before = pair.replica.model.clone();
                let res = pair.round(&plan);
                let fr = pair.replica.world.lock().unwrap().failed.clone();
                let fw = pair.writer.world.lock().unwrap().failed.clone();
                match (res, fr, fw) {
                    (Ok(_), None, None) => {}
                    (Ok(_), Some(d), _) | (Ok(_), _, Some(d)) => {
                        return Err((format!("fault-swallowed:proof:{}.{}", STORE_NAMES[d.store], d.kind), format!("round {plan:?} succeeded although a storage operation failed")));
                    }
                    (Err(f), None, None) => {
                        // honest round failed without fault: C03's business (known shapes); abandon
                        ctx.count("replica_round_failed_without_fault");
                        let _ = f;
                        let a = pair.replica.world.lock().unwrap().op_counter - base_r;
                        let b = pair.writer.world.lock().unwrap().op_counter - base_w;
                        return Ok((a, b));
                    }
                    (Err(f), fr, fw) => {
                        let (d, kind) = match (&fr, &fw) {
                            (Some(d), _) => (d.clone(), if f.sig.starts_with("missing_nodes") { "missing_nodes" } else { "proof" }),
                            (_, Some(d)) => (d.clone(), "create_proof"),
                            _ => unreachable!(),
                        };
                        ctx.count(&fault_name(kind, &d));
                        if f.sig.contains("panic") {
                            return Err((format!("panic-on-fault:{}", f.sig), f.detail));
                        }
                        if !f.sig.contains(":err:") {
                            return Err((format!("wrong-result-on-fault:{}", f.sig), f.detail));
                        }
                        if fr.is_some() {
                            // reopen the replica, faults off: before or after
                            pair.replica.world.lock().unwrap().fail_at = None;
                            pair.replica.core = None;
                            // "after" is unknown without the proof; compute by re-running the round later:
                            // accept before, or a state that an honest completion can still extend.
                            pair.replica.reopen().map_err(|fl| (format!("after-proof-fault@{}.{}:{}", STORE_NAMES[d.store], d.kind, fl.sig), fl.detail))?;
                            pair.replica.model = before.clone();
                            let o = observe(pair.replica.core(), 64);
                            let e = before.expected_like(&o);
                            if diff(&o, &e, CMP_HAS | CMP_CONTIG).is_some() {
                                // try "after": redo the same plan on a twin to learn the after model
                                let mut twin_model = before.clone();
                                // after-state = before + this plan's effect, derived from the writer model
                                if plan.upgrade.is_some() {
                                    let wl = pair.writer.model.length() as usize;
                                    twin_model.sizes = pair.writer.model.sizes[..wl].to_vec();
                                    while twin_model.blocks.len() < wl {
                                        twin_model.blocks.push(None);
                                    }
                                }
                                if let Some(b) = plan.block {
                                    if (b as usize) < twin_model.blocks.len() {
                                        twin_model.blocks[b as usize] = pair.writer.model.get(b).cloned();
                                    }
                                }
                                let e2 = twin_model.expected_like(&o);
                                if let Some((c, dd)) = diff(&o, &e2, CMP_HAS | CMP_CONTIG) {
                                    return Err((format!("after-proof-fault@{}.{}:neither-before-nor-after:{c}", STORE_NAMES[d.store], d.kind), format!("plan {plan:?}: {dd}")));
                                }
                                pair.replica.model = twin_model;
                                ctx.count("recovered_after_state");
                            } else {
                                ctx.count("recovered_before_state");
                            }
                        } else {
                            // writer-side fault during create_proof: writer must be unchanged after reopen
                            pair.writer.world.lock().unwrap().fail_at = None;
                            pair.writer.reopen().map_err(|fl| (format!("after-create_proof-fault:{}", fl.sig), fl.detail))?;
                            pair.writer.check("writer after create_proof fault").map_err(|fl| (format!("after-create_proof-fault:{}", fl.sig), fl.detail))?;
                        }
                        // honest replication can still complete
                        pair.complete().map_err(|fl| (format!("after-fault:{}", fl.sig), fl.detail))?;
                        pair.replica.check(CMP_HAS | CMP_CONTIG, 64, "after completion").map_err(|fl| (format!("after-fault:{}", fl.sig), fl.detail))?;
                        return Ok((0, 0));
                    }
                }
            }
            // the replica closes and reopens (reads of the oplog, tree roots and bitfield may fail)
            pair.replica.core = None;
            match pair.replica.reopen() {
                Ok(()) => {
                    if let Some(d) = pair.replica.world.lock().unwrap().failed.clone() {
                        return Err((format!("fault-swallowed:reopen:{}.{}", STORE_NAMES[d.store], d.kind), "replica open(true) returned Ok although a storage operation failed".into()));
                    }
                }
                Err(f) => {
                    let Some(d) = pair.replica.world.lock().unwrap().failed.clone() else {
                        return Err((format!("spurious:{}", f.sig), f.detail));
                    };
                    ctx.count(&fault_name("replica-reopen", &d));
                    if f.sig.contains("panic") {
                        return Err((format!("panic-on-fault:{}", f.sig), f.detail));
                    }
                    pair.replica.world.lock().unwrap().fail_at = None;
                    pair.replica.reopen().map_err(|fl| (format!("after-replica-reopen-fault@{}.{}:{}", STORE_NAMES[d.store], d.kind, fl.sig), fl.detail))?;
                    pair.replica.check(CMP_HAS | CMP_CONTIG, 64, "replica after failed reopen").map_err(|fl| (format!("after-replica-reopen-fault:{}", fl.sig), fl.detail))?;
                    pair.complete().map_err(|fl| (format!("after-fault:{}", fl.sig), fl.detail))?;
                    return Ok((0, 0));
                }
            }
        }
        let a = pair.replica.world.lock().unwrap().op_counter - base_r;
        let b = pair.writer.world.lock().unwrap().op_counter - base_w;
        Ok((a, b))
    };
    let _ = &run;
    let (nr, nw) = match run(ctx, 0, None) {
        Ok(x) => x,
        Err((sig, detail)) => {
            ctx.violate(format!("clean-replica-run:{sig}"), detail, json!({"kind":"case"}));
            return;
        }
    };
    ctx.count("replica_histories");
    let mut bad = 0;
    for (side, n) in [(1u8, nr), (2u8, nw)] {
        for k in 0..n {
            ctx.count("fault_points");
            ctx.count(if side == 1 { "replica_fault_points" } else { "writer_proof_fault_points" });
            ctx.eval(Some(crate::rng::fnv(format!("r{id}|{side}|{k}").as_bytes())));
            if let Err((sig, detail)) = run(ctx, side, Some(k)) {
                ctx.violate(sig, format!("replica case {id}, fault side {side} at op {k}: {detail}"), json!({"kind":"replica-fault","side":side,"fail_at":k}));
                bad += 1;
                if bad > 4 {
                    return;
                }
            }
        }
    }
}

fn run_case(ctx: &mut Ctx, id: u64) {
    let t = ctx.tier;
    let alphabet: Vec<u8> = (0..gen::ALPHABET as u8).collect();
    let mut r = ctx.case_rng(id);
    let nch = n_chunks(t);
    if id < nch {
        let prefix = gen::prefix_of_chunk(id, 2, &alphabet);
        let l = t.pick(3, 4);
        let mut seqs: Vec<Vec<u8>> = vec![];
        gen::for_each_sequence(&prefix, l, &alphabet, |s| seqs.push(s.to_vec()));
        for s in seqs {
            if let Some(mut ops) = gen::concretize(&s) {
                // fixed tail: reads and a reopen so that read paths see faults too
                ops.push(Op::Get(0));
                ops.push(Op::Reopen);
                ops.push(Op::Get(1));
                ctx.count("exhaustive_histories");
                fault_history(ctx, 7, &ops);
                if ctx.violations.len() > 8 {
                    return;
                }
            }
        }
        return;
    }
    let d = directed();
    let di = (id - nch) as usize;
    if di < d.len() {
        ctx.count("directed_histories");
        fault_history(ctx, 31 + di as u64, &d[di]);
        return;
    }
    let ri = (di - d.len()) as u64;
    if ri < N_REPLICA {
        replica_faults(ctx, ri, &mut r);
        return;
    }
    if r.chance(1, 4) {
        replica_faults(ctx, 100 + id, &mut r);
        return;
    }
    let cfg = gen::RandCfg {
        max_ops: 25,
        reopen_pct: 15,
        clear_pct: 18,
        read_pct: 20,
        max_block: if r.chance(1, 8) { 5000 } else { 60 },
        big_batch: 0,
        far_clear: false,
    };
    let mut ops = gen::random_history(&mut r, &cfg);
    if r.chance(1, 5) {
        ops.push(Op::MakeReadOnly);
        ops.push(Op::Reopen);
        ops.push(Op::Get(0));
    }
    ctx.count("random_histories");
    let ks = r.next_u64();
    fault_history(ctx, ks, &ops);
    if id % 499 == 0 {
        ctx.sample(|| json!({"kind":"random","ops":ops::ops_to_json(&ops[..ops.len().min(20)])}));
    }
}
