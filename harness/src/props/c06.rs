//! C06 — storage files are readable and writable per the JavaScript on-disk layout.

use crate::exec;
use crate::framework::{Ctx, Spec};
use crate::gen;
use crate::model::*;
use crate::ops::{self, build_core, fail, keypair, CacheMode, Fail, Op, Sut};
use crate::props::c03;
use crate::refimpl::{self, make_frame, REntry, RHeader, RState};
use crate::rng::Rng;
use crate::world::{snapshot, Files, World};
use hypercore::{Hypercore, HypercoreBuilder, PartialKeypair, SigningKey};
use serde_json::json;
use sha2::{Digest, Sha256};

pub static SPEC: Spec = Spec {
    id: "C06",
    level: "exploration",
    fixed_cases: |_| 1 + 64 + 16,
    random_secs: |t| t.pick(14, 200),
    random_cap: |t| t.pick(200_000, 5_000_000),
    run_case,
    required: &[
        "golden_hashes_matched",
        "boundaries_decoded",
        "entry_flags_seen_8",
        "entry_flags_seen_14",
        "entry_flags_seen_10",
        "entry_flags_seen_6",
        "slot_0_current_seen",
        "slot_1_current_seen",
        "synthetic:bits-0-0",
        "synthetic:bits-1-1",
        "synthetic:bits-0-1",
        "synthetic:bits-1-0",
        "synthetic:only-second-slot",
        "synthetic:only-first-slot",
        "synthetic:partial-tail",
        "synthetic:stale-bit-entries",
        "synthetic:torn-tail",
        "synthetic:reencoded-entries",
        "synthetic_images_opened",
        "big_core_boundaries",
    ],
    rule: "forward: at EVERY operation boundary of writer histories (C01 alphabet, random) and replica sessions the four store images are decoded by a reader that knows only the JavaScript layout (two crc-framed 4096-byte header slots chosen by their header bits, crc-framed flag-encoded entries from byte 8192 carrying the current header bit, 4096-byte little-endian bitfield pages, 40-byte tree nodes, concatenated blocks) and must give exactly what the API reports: public key, writability, fork, length, byte length, contiguous length, has(i) for every i, bytes of every held block read from the data image at the offset derived from the node table; framing rules are checked (partial bit clear on written entries, entries carry the current header bit, no trailing bytes after the last entry, bitfield image a multiple of 4096 bytes, tree image a multiple of 40 bytes, re-encoding every entry with the reference encoder reproduces the stored bytes); the five-step interop scenario must reproduce the 20 SHA-256 file hashes certified against the JavaScript implementation; reverse: from real boundary images, JS-valid images in layouts the crate never writes are synthesised (header only in slot 0 / only in slot 1, each of the four header-bit pairs, entries re-framed with the matching bit, trailing partial-flagged entries of an unfinished atomic batch, stale entries carrying the other bit, torn tail) and open(true) must succeed and observe exactly the state the reference reader assigns to that image; distinct = image hash",
    assumptions: &[
        "the JavaScript implementation cannot be run here; independence is anchored on the 20 golden file hashes of tests/js_interop.rs (certified against JS), the hypercore-crypto known-answer vectors and the layout description in DESIGN.md appendix A",
        "layout rules not exercised by the golden scenario (second slot chosen by equal bits, partial flag, block-only / upgrade-only entries) rest on my reading of the JS sources as quoted in the crate's comments",
    ],
    exhaustive_note: "every operation boundary of every history/session executed is decoded; synthetic variants: all four bit pairs x {no extra, partial tail, stale entries, torn tail} per base image",
    hang_secs: 120,
};

fn sha(b: &[u8]) -> String {
    let mut h = Sha256::new();
    h.update(b);
    format!("{:X}", h.finalize())
}

const GOLDEN: [[&str; 4]; 5] = [
    // bitfield, data, oplog, tree
    ["", "", "A30BD5326139E8650F3D53CB43291945AE92796ABAEBE1365AC1B0C37D008936", ""],
    [
        "0E2E1FF956A39192CBB68D2212288FE75B32733AB0C442B9F0471E254A0382A2",
        "872E4E50CE9990D8B041330C47C9DDD11BEC6B503AE9386A99DA8584E9BB12C4",
        "C65A6867991D29FCF98B4E4549C1039CB5B3C63D891BA1EA4F0BB47211BA4B05",
        "8577B24ADC763F65D562CD11204F938229AD47F27915B0821C46A0470B80813A",
    ],
    [
        "DEC1593A7456C8C9407B9B8B9C89682DFFF33C3892BCC9D9F06956FEE0A1B949",
        "99EB5BC150A1102A7E50D15F90594660010B7FE719D54129065D1D417AA5015A",
        "5DCE3C7C86B0E129B32E5A07CA3DF668006A42F9D75399D6E4DB3F18256B8468",
        "38788609A8634DC8D34F9AE723F3169ADB20768ACFDFF266A43B7E217750DD1E",
    ],
    [
        "9B844E9378A7D13D6CDD4C1FF12FB313013E5CC472C6CB46497033563FE6B8F1",
        "AF3AC31CFBE1733C62496CF8E856D5F1EFB4B06CBF1E74204221C89E2F3E1CDE",
        "46E01E9CECDF6E7EA85807F65C5F3CEED96583F3BF97BC6835A6DA05E39FE8E9",
        "26339A21D606A1F731B90E8001030651D48378116B06A9C1EF87E2538194C2C6",
    ],
    [
        "40C9CED82AE0B7A397C9FDD14EEB7F70B74E8F1229F3ED931852591972DDC3E0",
        "D9FFCCEEE9109751F034ECDAE328672956B90A6E0B409C3173741B8A5D0E75AB",
        "803384F10871FB60E53A7F833E6E1E9729C6D040D960164077963092BBEBA274",
        "26339A21D606A1F731B90E8001030651D48378116B06A9C1EF87E2538194C2C6",
    ],
];

pub const TEST_SECRET: [u8; 32] = [
    0x27, 0xe6, 0x74, 0x25, 0xc1, 0xff, 0xd1, 0xd9, 0xee, 0x62, 0x5c, 0x96, 0x2b, 0x57, 0x13, 0xc3, 0x51, 0x0b, 0x71, 0x14, 0x15, 0xf3, 0x31, 0xf6, 0xfa, 0x9e, 0xf2, 0xbf, 0x23, 0x5f, 0x2f, 0xfe,
];

/// The five-step interop scenario of tests/js_interop.rs, on any storage factory.
/// `open(create: bool) -> Hypercore`; `files() -> Files` after each step.
pub fn golden_scenario(mut open: impl FnMut(bool) -> Result<Hypercore, String>, mut files: impl FnMut() -> Files) -> Result<(), String> {
    let check = |step: usize, f: &Files| -> Result<(), String> {
        // order in Files: tree, data, bitfield, oplog
        let got = [&f[2], &f[1], &f[3], &f[0]];
        for (k, name) in ["bitfield", "data", "oplog", "tree"].iter().enumerate() {
            let h = if got[k].is_empty() { String::new() } else { sha(got[k]) };
            if h != GOLDEN[step][k] {
                return Err(format!("step {} {} hash {} expected {}", step + 1, name, h, GOLDEN[step][k]));
            }
        }
        Ok(())
    };
    let e = |x: hypercore::HypercoreError| x.to_string();
    // step 1: create
    let core = open(true)?;
    drop(core);
    check(0, &files())?;
    // step 2
    let mut core = open(false)?;
    let batch: &[&[u8]] = &[b"Hello", b"World"];
    exec::block_on(core.append_batch(batch)).map_err(e)?;
    drop(core);
    check(1, &files())?;
    // step 3
    let mut core = open(false)?;
    exec::block_on(core.get(0)).map_err(e)?;
    exec::block_on(core.get(1)).map_err(e)?;
    exec::block_on(core.append(b"first")).map_err(e)?;
    let batch: &[&[u8]] = &[b"second", b"third"];
    exec::block_on(core.append_batch(batch)).map_err(e)?;
    exec::block_on(core.append(&[0x61u8; 4096 * 3])).map_err(e)?;
    let empty: Vec<Vec<u8>> = vec![];
    exec::block_on(core.append_batch(&empty)).map_err(e)?;
    for i in 2..6 {
        exec::block_on(core.get(i)).map_err(e)?;
    }
    drop(core);
    check(2, &files())?;
    // step 4
    let mut core = open(false)?;
    for i in 0..5u8 {
        exec::block_on(core.append(&[i])).map_err(e)?;
    }
    drop(core);
    check(3, &files())?;
    // step 5
    let mut core = open(false)?;
    exec::block_on(core.clear(5, 6)).map_err(e)?;
    exec::block_on(core.clear(7, 9)).map_err(e)?;
    let info = core.info();
    if info.length != 11 || info.byte_length != 12319 || info.contiguous_length != 5 {
        return Err(format!("step 5 info {info:?}"));
    }
    drop(core);
    check(4, &files())?;
    Ok(())
}

fn golden_on_world() -> Result<(), String> {
    let world = World::new();
    let sk = SigningKey::from_bytes(&TEST_SECRET);
    let w2 = world.clone();
    let open = move |create: bool| -> Result<Hypercore, String> {
        let kp = if create { Some(PartialKeypair { public: sk.verifying_key(), secret: Some(sk.clone()) }) } else { None };
        match build_core(&w2, kp, !create, CacheMode::None) {
            Ok(Ok(c)) => Ok(c),
            Ok(Err(e)) => Err(e.to_string()),
            Err(p) => Err(p),
        }
    };
    let w3 = world.clone();
    golden_scenario(open, move || snapshot(&w3))
}

/// What the API reports, compared with what the reference reader reconstructs from the images.
fn forward_check(ctx: &mut Ctx, core: &mut Hypercore, files: &Files, expect_pk: &[u8; 32]) -> Result<(), Fail> {
    let (st, op) = refimpl::read_state(files).map_err(|e| fail("reference-reader-rejects-stores", e))?;
    ctx.count("boundaries_decoded");
    ctx.count(&format!("slot_{}_current_seen", op.slot));
    for f in &op.entry_flags {
        ctx.count(&format!("entry_flags_seen_{f}"));
    }
    // framing rules: what a tidy writer of the layout does. The property only demands that the
    // reader reconstructs the reported state, so deviations here are recorded as warnings in the
    // evidence (a state mismatch below is what decides).
    if op.partial_dropped > 0 {
        ctx.count("warn:trailing-partial-entry-at-operation-boundary");
    }
    if op.stale_ignored {
        ctx.count("warn:entry-with-stale-header-bit-left-behind");
    }
    if files[3].len() != 8192 + op.entries_bytes {
        ctx.count("warn:oplog-bytes-after-last-valid-entry");
    }
    if files[2].len() % 4096 != 0 {
        ctx.count("warn:bitfield-not-page-multiple");
    }
    if files[0].len() % 40 != 0 {
        ctx.count("warn:tree-not-node-multiple");
    }
    // re-encoding each entry / the header with the reference encoder reproduces the stored bytes
    let mut off = 8192;
    for e in &op.entries {
        let fr = refimpl::frame_at(&files[3][off..]).unwrap();
        if e.encode() != fr.payload {
            ctx.count("warn:entry-not-canonical");
        } else {
            ctx.count("entries_reencoded_identically");
        }
        off += fr.total;
    }
    {
        let slot_off = op.slot * 4096;
        let fr = refimpl::frame_at(&files[3][slot_off..slot_off + 4096]).unwrap();
        if op.header.encode() != fr.payload {
            ctx.count("warn:header-not-canonical");
        } else {
            ctx.count("headers_reencoded_identically");
        }
    }
    // state
    let info = core.info();
    let kp = core.key_pair().clone();
    if &st.public != expect_pk || kp.public.to_bytes() != st.public {
        return Err(fail("reader:public-key", "public key differs".to_string()));
    }
    if st.writable != info.writeable {
        return Err(fail("reader:writability", format!("reader {} api {}", st.writable, info.writeable)));
    }
    if st.fork != info.fork || st.length != info.length || st.byte_length != info.byte_length {
        return Err(fail("reader:length", format!("reader fork {} length {} bytes {} / api {:?}", st.fork, st.length, st.byte_length, info)));
    }
    if st.contiguous_hint != info.contiguous_length {
        return Err(fail("reader:contiguous", format!("reader {} api {}", st.contiguous_hint, info.contiguous_length)));
    }
    for i in 0..st.length + 2 {
        let h = core.has(i);
        let r = st.present.get(i as usize).copied().unwrap_or(false);
        if h != r {
            return Err(fail("reader:has", format!("has({i}) api {h} reader {r}")));
        }
        if r {
            let (o, sz) = refimpl::block_range(&st.nodes, st.length, i).ok_or_else(|| fail("reader:block-range", format!("nodes for block {i} missing")))?;
            let bytes: Vec<u8> = if sz == 0 {
                vec![]
            } else if (o + sz) as usize <= files[1].len() {
                files[1][o as usize..(o + sz) as usize].to_vec()
            } else {
                return Err(fail("reader:data-out-of-range", format!("block {i} at {o}+{sz} beyond data image of {} bytes", files[1].len())));
            };
            match exec::call(core.get(i)) {
                Ok(Ok(Some(b))) if b == bytes => {}
                other => return Err(fail("reader:block-bytes", format!("block {i}: api {:?} vs reader {} bytes", other.map(|x| x.map(|y| y.map(|z| z.len())).map_err(|e| e.to_string())), bytes.len()))),
            }
        }
    }
    Ok(())
}

fn obs_from_state(st: &RState, files: &Files, o: &Obs) -> Obs {
    let get = o
        .get
        .iter()
        .map(|(i, _)| {
            let g = if *i < st.length && st.present[*i as usize] {
                match refimpl::block_range(&st.nodes, st.length, *i) {
                    Some((off, sz)) if (off + sz) as usize <= files[1].len() || sz == 0 => {
                        let b = if sz == 0 { vec![] } else { files[1][off as usize..(off + sz) as usize].to_vec() };
                        Got::of(Some(&b))
                    }
                    _ => Got::Err("reader: block range unavailable".into()),
                }
            } else {
                Got::None
            };
            (*i, g)
        })
        .collect();
    Obs {
        length: st.length,
        byte_length: st.byte_length,
        contiguous: st.contiguous_hint,
        writeable: st.writable,
        fork: st.fork,
        has: o.has.iter().map(|(i, _)| (*i, *i < st.length && st.present[*i as usize])).collect(),
        get,
        panics: vec![],
    }
}

/// Reverse direction: synthesise JS-valid variants of a real image and open them.
fn reverse_variants(ctx: &mut Ctx, files: &Files, r: &mut Rng) -> Result<(), Fail> {
    let (_st, op) = refimpl::read_state(files).map_err(|e| fail("reference-reader-rejects-stores", e))?;
    // an older, different header for the non-current slot
    let mut older = RHeader::fresh(op.header.public, None);
    older.secret = op.header.secret;
    let payloads: Vec<Vec<u8>> = op.entries.iter().map(|e| e.encode()).collect();
    // a bogus entry used for partial / stale tails: an append-like entry that must be ignored
    // it would be observable if replayed: it drops block 0 (or announces a block at `length`)
    let cur_len = _st.length;
    let bogus = REntry {
        nodes: vec![],
        upgrade: None,
        bitfield: Some(if cur_len > 0 { (true, 0, cur_len) } else { (false, 0, 1) }),
    }
    .encode();
    let layouts: [(&str, Option<bool>, Option<bool>); 6] = [
        ("bits-0-0", Some(false), Some(false)),
        ("bits-1-1", Some(true), Some(true)),
        ("bits-0-1", Some(false), Some(true)),
        ("bits-1-0", Some(true), Some(false)),
        ("only-first-slot", Some(r.chance(1, 2)), None),
        ("only-second-slot", None, Some(r.chance(1, 2))),
    ];
    for (lname, b0, b1) in layouts {
        // which slot is current, and which bit entries must carry
        let (cur_slot, ebit) = match (b0, b1) {
            (Some(a), Some(b)) => (if a == b { 0 } else { 1 }, a ^ b),
            (Some(_), None) => (0, false),
            (None, Some(_)) => (1, true),
            _ => unreachable!(),
        };
        for tail in 0..4 {
            let tname = ["reencoded-entries", "partial-tail", "stale-bit-entries", "torn-tail"][tail];
            let mut oplog = vec![0u8; 8192];
            let put = |oplog: &mut Vec<u8>, slot: usize, h: &RHeader, bit: bool| {
                let f = make_frame(&h.encode(), bit, false);
                oplog[slot * 4096..slot * 4096 + f.len()].copy_from_slice(&f);
            };
            if let Some(b) = b0 {
                put(&mut oplog, 0, if cur_slot == 0 { &op.header } else { &older }, b);
            }
            if let Some(b) = b1 {
                put(&mut oplog, 1, if cur_slot == 1 { &op.header } else { &older }, b);
            }
            for p in &payloads {
                oplog.extend_from_slice(&make_frame(p, ebit, false));
            }
            match tail {
                1 => {
                    // unfinished atomic batch: trailing partial-flagged entries
                    for _ in 0..(1 + r.below(3)) {
                        oplog.extend_from_slice(&make_frame(&bogus, ebit, true));
                    }
                }
                2 => {
                    oplog.extend_from_slice(&make_frame(&bogus, !ebit, false));
                    oplog.extend_from_slice(&make_frame(&bogus, !ebit, false));
                }
                3 => {
                    let f = make_frame(&bogus, ebit, false);
                    let cut = 1 + r.below(f.len() as u64 - 1) as usize;
                    oplog.extend_from_slice(&f[..cut]);
                }
                _ => {}
            }
            let mut v: Files = files.clone();
            v[3] = oplog;
            // JS writes only dirty bitfield pages and tree nodes it knows: trailing all-zero pages
            // / nodes may or may not be materialised. Vary that too.
            match (tail + lname.len()) % 3 {
                1 => {
                    v[2].extend_from_slice(&[0u8; 4096]);
                    v[0].extend_from_slice(&[0u8; 80]);
                    ctx.count("synthetic:zero-padded-bitfield-and-tree");
                }
                2 => {
                    while v[2].len() >= 4096 && v[2][v[2].len() - 4096..].iter().all(|b| *b == 0) {
                        let n = v[2].len() - 4096;
                        v[2].truncate(n);
                        ctx.count("synthetic:trailing-zero-page-dropped");
                    }
                }
                _ => {}
            }
            let (st2, _op2) = refimpl::read_state(&v).map_err(|e| fail("harness:reference-reader-rejects-own-image", format!("{lname}/{tname}: {e}")))?;
            ctx.count(&format!("synthetic:{lname}"));
            ctx.count(&format!("synthetic:{tname}"));
            ctx.count("synthetic_images_opened");
            ctx.eval(Some(crate::rng::fnv(&v[3]) ^ crate::rng::fnv(&v[0])));
            let world = World::from_files(v.clone());
            let mut core = match build_core(&world, None, true, CacheMode::None) {
                Ok(Ok(c)) => c,
                Ok(Err(e)) => return Err(fail(format!("open-rejects-js-valid-image:{lname}:{tname}:{}", ops::err_sig(&e)), format!("{e}"))),
                Err(p) => return Err(fail(format!("open-panics-on-js-valid-image:{lname}:{tname}:{}", exec::panic_sig(&p)), p)),
            };
            let o = observe(&mut core, 64);
            let e = obs_from_state(&st2, &v, &o);
            if let Some((c, d)) = diff(&o, &e, CMP_ALL) {
                return Err(fail(format!("opened-state-differs:{lname}:{tname}:{c}"), d));
            }
            // and the core stays usable on such an image: one append (if writable), reopen
            if st2.writable {
                match exec::call(core.append(b"after-synthetic")) {
                    Ok(Ok(out)) if out.length == st2.length + 1 => {}
                    other => return Err(fail(format!("append-after-synthetic:{lname}:{tname}"), format!("{:?}", other.map(|x| x.map(|y| y.length).map_err(|e| e.to_string()))))),
                }
                drop(core);
                match build_core(&world, None, true, CacheMode::None) {
                    Ok(Ok(mut c2)) => {
                        let i = c2.info();
                        if i.length != st2.length + 1 {
                            return Err(fail(format!("reopen-after-synthetic:{lname}:{tname}:length"), format!("{i:?}")));
                        }
                        match exec::call(c2.get(st2.length)) {
                            Ok(Ok(Some(b))) if b == b"after-synthetic" => {}
                            other => return Err(fail(format!("reopen-after-synthetic:{lname}:{tname}:get"), format!("{:?}", other.map(|x| x.map_err(|e| e.to_string()))))),
                        }
                    }
                    Ok(Err(e)) => return Err(fail(format!("reopen-after-synthetic:{lname}:{tname}:{}", ops::err_sig(&e)), format!("{e}"))),
                    Err(p) => return Err(fail(format!("reopen-after-synthetic:{lname}:{tname}:panic"), p)),
                }
            }
        }
    }
    Ok(())
}

fn writer_history(ctx: &mut Ctx, ops: &[Op], key_seed: u64, r: &mut Rng, reverse_every: u64) -> Result<(), (usize, Fail)> {
    let world = World::new();
    let mut sut = Sut::create(key_seed, world.clone(), CacheMode::None).map_err(|f| (0, fail(format!("scenario:{}", f.sig), f.detail)))?;
    let pk = sut.key.verifying_key().to_bytes();
    let files = snapshot(&world);
    forward_check(ctx, sut.core(), &files, &pk).map_err(|f| (0, f))?;
    for (i, op) in ops.iter().enumerate() {
        sut.step(op).map_err(|f| (i, fail(format!("scenario:{}", f.sig), f.detail)))?;
        let files = snapshot(&world);
        forward_check(ctx, sut.core(), &files, &pk).map_err(|f| (i, f))?;
        ctx.eval(Some(crate::rng::fnv(&files[3]) ^ crate::rng::fnv(&files[2])));
        if reverse_every > 0 && (i as u64 + 1) % reverse_every == 0 {
            reverse_variants(ctx, &files, r).map_err(|f| (i, f))?;
        }
    }
    Ok(())
}

fn replica_session(ctx: &mut Ctx, r: &mut Rng) -> Result<(), Fail> {
    let mut sess = c03::Session::new(r.next_u64(), CacheMode::None).map_err(|f| fail(format!("scenario:{}", f.sig), f.detail))?;
    let pk = sess.pair.writer.key.verifying_key().to_bytes();
    let mut tag = 1u32;
    for _ in 0..(1 + r.below(3)) {
        let wops: Vec<Op> = (0..(1 + r.below(8))).map(|_| {
            tag += 1;
            Op::Append(tag, gen::rand_block_len(r, 200))
        }).collect();
        sess.writer_ops(&wops).map_err(|f| fail(format!("scenario:{}", f.sig), f.detail))?;
        for _ in 0..(1 + r.below(6)) {
            let rl = sess.pair.replica.model.length();
            let wl = sess.pair.writer.model.length();
            let plan = crate::repl::random_plan(r, rl, wl, &sess.pair.writer.model, &sess.pair.replica.model);
            sess.request(ctx, &plan).map_err(|f| fail(format!("scenario:{}", f.sig), f.detail))?;
            let files = snapshot(&sess.pair.replica.world);
            forward_check(ctx, sess.pair.replica.core(), &files, &pk)?;
            ctx.eval(Some(crate::rng::fnv(&files[3]) ^ crate::rng::fnv(&files[0])));
            if r.chance(1, 4) {
                reverse_variants(ctx, &files, r)?;
            }
            if r.chance(1, 6) {
                sess.reopen_replica(ctx).map_err(|f| fail(format!("scenario:{}", f.sig), f.detail))?;
            }
        }
    }
    Ok(())
}

fn run_case(ctx: &mut Ctx, id: u64) {
    let mut r = ctx.case_rng(id);
    let report = |ctx: &mut Ctx, sig: String, detail: String, replay: serde_json::Value| {
        if sig.starts_with("scenario:") {
            ctx.count("scenario_unusable");
            ctx.notes.push(format!("scenario unusable: {sig} {}", detail.chars().take(120).collect::<String>()));
        } else {
            ctx.violate(sig, detail, replay);
        }
    };
    if id == 0 {
        ctx.eval(None);
        let st = refimpl::self_test();
        if !st.is_empty() {
            ctx.notes.push(format!("reference self-test failed: {st:?}"));
            return;
        }
        match golden_on_world() {
            Ok(()) => ctx.count("golden_hashes_matched"),
            Err(e) => ctx.violate("golden-hash-mismatch".into(), e, json!({"kind":"golden"})),
        }
        return;
    }
    let alphabet: Vec<u8> = (0..gen::ALPHABET as u8).collect();
    if id <= 64 {
        let prefix = gen::prefix_of_chunk(id - 1, 2, &alphabet);
        let mut seqs: Vec<Vec<u8>> = vec![];
        gen::for_each_sequence(&prefix, 4, &alphabet, |s| seqs.push(s.to_vec()));
        for (k, s) in seqs.iter().enumerate() {
            if let Some(ops) = gen::concretize(s) {
                ctx.count("exhaustive_histories");
                if let Err((i, f)) = writer_history(ctx, &ops, 7, &mut r, if k % 8 == 0 { 2 } else { 0 }) {
                    report(ctx, f.sig, format!("op #{i}: {}", f.detail), json!({"kind":"history","ops":ops::ops_to_json(&ops)}));
                    if ctx.violations.len() > 6 {
                        return;
                    }
                }
            }
        }
        return;
    }
    if id == 65 {
        // a core longer than one bitfield page, flushed, reopened, decoded by the reference reader
        let ops = vec![Op::Batch((0..32_800u32).map(|i| (i + 1, 1)).collect()), Op::Reopen, Op::Clear(32_760, 32_770), Op::Reopen];
        ctx.count("big_core_boundaries");
        if let Err((i, f)) = writer_history(ctx, &ops, 65, &mut r, 0) {
            report(ctx, f.sig, format!("op #{i}: {}", f.detail), json!({"kind":"big-history"}));
        }
        return;
    }
    if id <= 80 || r.chance(1, 3) {
        ctx.count("replica_sessions");
        if let Err(f) = replica_session(ctx, &mut r) {
            report(ctx, f.sig, f.detail, json!({"kind":"session"}));
        }
        return;
    }
    let cfg = gen::RandCfg { max_ops: 40, reopen_pct: 12, clear_pct: 18, read_pct: 5, max_block: if r.chance(1, 6) { 12288 } else { 300 }, big_batch: if r.chance(1, 8) { 200 } else { 0 }, far_clear: true };
    let mut ops = gen::random_history(&mut r, &cfg);
    if r.chance(1, 6) {
        ops.push(Op::MakeReadOnly);
        ops.push(Op::Reopen);
    } else if r.chance(1, 5) && ops.len() > 4 {
        // read-only in mid-history: later clears still log entries (appends are refused)
        let pos = ops.len() / 2;
        ops.insert(pos, Op::MakeReadOnly);
        let mut len = 0u64;
        let mut ro = false;
        ops.retain(|o| match o {
            Op::MakeReadOnly => {
                ro = true;
                true
            }
            Op::Append(..) => {
                if !ro {
                    len += 1;
                }
                true
            }
            Op::Batch(b) => {
                if !ro {
                    len += b.len() as u64;
                }
                true
            }
            Op::Clear(s, _) => *s < len,
            _ => true,
        });
        ctx.count("histories_with_make_read_only_in_the_middle");
    }
    ctx.count("random_histories");
    let ks = r.next_u64();
    if let Err((i, f)) = writer_history(ctx, &ops, ks, &mut r, 5) {
        report(ctx, f.sig, format!("op #{i}: {}", f.detail), json!({"kind":"history","ops":ops::ops_to_json(&ops)}));
    } else if id % 307 == 0 {
        ctx.sample(|| json!({"kind":"history","ops":ops::ops_to_json(&ops[..ops.len().min(14)])}));
    }
    let _ = (keypair, HypercoreBuilder::new);
}
