//! C04 — forged or altered proofs never change what a replica believes.

use crate::exec;
use crate::framework::{Ctx, Spec};
use crate::gen;
use crate::model::*;
use crate::mutate;
use crate::ops::{self, build_core, fail, CacheMode, Fail, Op, Sut};
use crate::repl::{self, apply_proof, create_proof, Plan, Replica, Request};
use crate::rng::Rng;
use crate::world::{Files, World};
use hypercore::Proof;
use serde_json::{json, Value};
use std::collections::HashSet;

pub static SPEC: Spec = Spec {
    id: "C04",
    level: "exploration",
    fixed_cases: |_| 8,
    random_secs: |t| t.pick(18, 300),
    random_cap: |t| t.pick(100_000, 3_000_000),
    run_case,
    required: &[
        "refused:value-flip",
        "refused:hash-flip:block",
        "refused:hash-flip:hash",
        "refused:hash-flip:seek",
        "refused:hash-flip:upgrade",
        "refused:hash-flip:additional",
        "refused:sig-flip",
        "refused:fork+1",
        "refused:upgrade-start+1",
        "refused:upgrade-length-1",
        "refused:forgery:other-key-signature",
        "refused:forgery:signature-for-other-length",
        "refused:forgery:other-writer-same-data",
        "refused:forgery:consistent-fake-tree-genuine-signature",
        "refused:forgery:consistent-fake-tree-no-upgrade",
        "accepted_legit",
        "refused:stale",
        "stale:Ok(true)",
        "honest_after_battery_ok",
        "alteration_kinds_x_sections",
    ],
    rule: "a case = one honest replication session (as C03: growth rounds, clears, well-formed requests, replica reopens); for EVERY honest proof, before the replica applies it, every single-field alteration (bit flips in value / each node hash / signature; +-1 on fork, start, length, indices, sizes, seek bytes; node drop/dup/swap/insert at every position; section removal; signature truncate/extend/empty), earlier genuine (stale) proofs and systematic forgeries (signature by another key, genuine signature for another length, whole proof from another writer with the same data, consistent fake tree with and without the genuine signature) are applied to clones of the replica; must-refuse alterations: result != Ok(true) (an acceptance is tolerated only if observation and store bytes are identical to the honest twin's); refused => observation and all four store images unchanged; accepted (only legitimate for unauthenticated fields) => every held block equals the writer's, (length, byte length) is a pair the writer signed, honest completion converges; evaluations = altered proofs applied; distinct = (session, proof#, alteration) hashes",
    assumptions: &[
        "numeric fields stay below 2^40; size fields of the bottom nodes of hash-only and seek sections are not altered (excluded by the property)",
        "clones: must-refuse alterations run sequentially on a replay-built clone whose observation and store bytes are verified unchanged after each refusal; may-accept alterations run on clones made by reopening a copy of the store",
    ],
    exhaustive_note: "per honest proof the alteration set is complete over fields and node positions (bit positions sampled: 1 per hash/value/signature quick, 8 thorough)",
    hang_secs: 240,
};

struct St {
    writer: Sut,
    same: Sut,
    alt: Sut,
    replica: Replica,
    accepted: Vec<Proof>,
    signed: HashSet<(u64, u64)>,
    sigs: Vec<(u64, Vec<u8>)>,
    all_blocks: Vec<Vec<u8>>,
    stale: Vec<Proof>,
    script: Vec<Value>,
}

fn alt_ops(ops: &[Op]) -> Vec<Op> {
    ops.iter()
        .map(|o| match o {
            Op::Append(t, l) => Op::Append(t ^ 0x0200_0000, *l),
            Op::Batch(b) => Op::Batch(b.iter().map(|(t, l)| (t ^ 0x0200_0000, *l)).collect()),
            x => x.clone(),
        })
        .collect()
}

impl St {
    fn new(key_seed: u64, cache: CacheMode) -> Result<St, Fail> {
        let writer = Sut::create(key_seed, World::new(), CacheMode::None)?;
        let same = Sut::create(key_seed ^ 0x5555, World::new(), CacheMode::None)?;
        let alt = Sut::create(key_seed ^ 0xAAAA, World::new(), CacheMode::None)?;
        let replica = Replica::create(&writer.key, cache)?;
        let mut signed = HashSet::new();
        signed.insert((0, 0));
        Ok(St {
            writer,
            same,
            alt,
            replica,
            accepted: vec![],
            signed,
            sigs: vec![],
            all_blocks: vec![],
            stale: vec![],
            script: vec![],
        })
    }
    fn writer_ops(&mut self, ops: &[Op]) -> Result<(), Fail> {
        self.script.push(json!({"w": ops::ops_to_json(ops)}));
        for op in ops {
            self.writer.step(op).map_err(|f| fail(format!("writer:{}", f.sig), f.detail))?;
            self.same.step(op).map_err(|f| fail(format!("shadow:{}", f.sig), f.detail))?;
            for b in Sut::materialize(op) {
                self.all_blocks.push(b);
            }
            self.signed.insert((self.writer.model.length(), self.writer.model.byte_length()));
        }
        for op in alt_ops(ops) {
            self.alt.step(&op).map_err(|f| fail(format!("shadow:{}", f.sig), f.detail))?;
        }
        Ok(())
    }
}

fn clone_by_replay(st: &St) -> Result<Replica, Fail> {
    let mut a = Replica::create(&st.writer.key, st.replica.cache)?;
    for (i, p) in st.accepted.iter().enumerate() {
        match apply_proof(a.core(), p) {
            Ok(Ok(true)) => {}
            other => return Err(fail("clone-replay-diverged", format!("replaying accepted honest proof #{i} on a fresh replica gave {:?}", other.map(|r| r.map_err(|e| e.to_string()))))),
        }
    }
    a.model = st.replica.model.clone();
    Ok(a)
}

fn clone_by_reopen(files: &Files, model: &Model, cache: CacheMode) -> Result<Replica, Fail> {
    let world = World::from_files(files.clone());
    match build_core(&world, None, true, cache) {
        Ok(Ok(c)) => Ok(Replica {
            world,
            core: Some(c),
            model: model.clone(),
            cache,
        }),
        Ok(Err(e)) => Err(fail(format!("clone-reopen:err:{}", ops::err_sig(&e)), format!("{e}"))),
        Err(p) => Err(fail(format!("clone-reopen:panic:{}", exec::panic_sig(&p)), p)),
    }
}

fn obs_of(r: &mut Replica) -> Obs {
    observe(r.core(), 64)
}

fn outcome_name(r: &Result<Result<bool, hypercore::HypercoreError>, String>) -> String {
    match r {
        Ok(Ok(true)) => "Ok(true)".into(),
        Ok(Ok(false)) => "Ok(false)".into(),
        Ok(Err(_)) => "Err".into(),
        Err(_) => "panic".into(),
    }
}

/// (b) for an accepted altered/stale proof on clone `c`.
fn check_accepted(st: &mut St, c: &mut Replica, name: &str) -> Result<(), Fail> {
    let o = obs_of(c);
    if !st.signed.contains(&(o.length, o.byte_length)) {
        return Err(fail(format!("accepted-unsigned-length:{name}"), format!("after accepting {name} the replica reports length {} / byte length {}, a pair the writer never signed", o.length, o.byte_length)));
    }
    let mut m = Model::new(false);
    m.sizes = st.writer.model.sizes[..(o.length as usize).min(st.writer.model.sizes.len())].to_vec();
    m.blocks = vec![None; o.length as usize];
    for (i, g) in &o.get {
        if *i >= o.length {
            if !matches!(g, Got::None) {
                return Err(fail(format!("accepted-phantom-block:{name}"), format!("get({i}) = {g:?} beyond length")));
            }
            continue;
        }
        match g {
            Got::None => {}
            Got::Some { .. } => {
                let exp = Got::of(Some(&st.all_blocks[*i as usize]));
                if *g != exp {
                    return Err(fail(format!("accepted-wrong-block:{name}"), format!("after accepting {name}: get({i}) = {g:?} but the writer's block is {exp:?}")));
                }
                m.blocks[*i as usize] = Some(st.all_blocks[*i as usize].clone());
            }
            Got::Err(e) => return Err(fail(format!("accepted-then-get-error:{name}"), format!("get({i}): {e}"))),
        }
    }
    c.model = m;
    repl::complete(&mut st.writer, c).map_err(|f| fail(format!("accepted-then-completion-failed:{name}:{}", f.sig), f.detail))?;
    c.check(CMP_HAS, 64, "completion after accepted alteration").map_err(|f| fail(format!("accepted-then-completion-wrong:{name}:{}", f.sig), f.detail))?;
    Ok(())
}

struct Cand {
    name: String,
    kind: String,
    must_refuse: bool,
    proof: Proof,
}

fn battery(ctx: &mut Ctx, st: &mut St, req: &Request, p: &Proof, r: &mut Rng, proof_no: usize) -> Result<(), Fail> {
    let bits = ctx.tier.pick(1usize, 8usize);
    let files_s = crate::world::snapshot(&st.replica.world);
    let obs_s = obs_of(&mut st.replica);
    let mut a = clone_by_replay(st)?;
    let obs_a0 = obs_of(&mut a);
    if obs_a0 != obs_s {
        return Err(fail("clone-differs", format!("replay clone {} vs replica {}", ops::short_obs(&obs_a0), ops::short_obs(&obs_s))));
    }
    let mut files_a0 = crate::world::snapshot(&a.world);
    // honest twin (reopen lane)
    let mut t = clone_by_reopen(&files_s, &st.replica.model, st.replica.cache)?;
    match apply_proof(t.core(), p) {
        Ok(Ok(true)) => {}
        other => return Err(fail("twin-rejected-honest", format!("{:?}", outcome_name(&other)))),
    }
    let obs_t = obs_of(&mut t);
    let files_t = crate::world::snapshot(&t.world);

    let mut cands: Vec<Cand> = vec![];
    for alt in mutate::alterations(p, r, bits) {
        if let Some(q) = mutate::apply(p, &alt) {
            cands.push(Cand {
                name: format!("{alt:?}"),
                kind: alt.kind(),
                must_refuse: alt.must_refuse(),
                proof: q,
            });
        }
    }
    // systematic forgeries
    let has_up = p.upgrade.is_some();
    let suffix = if has_up { "" } else { "-no-upgrade" };
    if let Ok(Ok(Some(q))) = create_proof(st.same.core(), req) {
        if has_up {
            cands.push(Cand { name: "forgery:other-writer-same-data".into(), kind: "forgery:other-writer-same-data".into(), must_refuse: true, proof: q.clone() });
            // honest nodes, signature by another key over the very same tree
            let mut q2 = p.clone();
            q2.upgrade.as_mut().unwrap().signature = q.upgrade.as_ref().unwrap().signature.clone();
            cands.push(Cand { name: "forgery:other-key-signature".into(), kind: "forgery:other-key-signature".into(), must_refuse: true, proof: q2 });
        } else if &q != p {
            return Err(fail("harness:same-data-proof-differs", "a no-upgrade proof from a writer with the same data should be identical".to_string()));
        }
    }
    if let Ok(Ok(Some(mut q))) = create_proof(st.alt.core(), req) {
        if &q != p {
            if has_up {
                cands.push(Cand { name: "forgery:consistent-fake-tree-other-key".into(), kind: "forgery:consistent-fake-tree-other-key".into(), must_refuse: true, proof: q.clone() });
                q.upgrade.as_mut().unwrap().signature = p.upgrade.as_ref().unwrap().signature.clone();
                cands.push(Cand { name: "forgery:consistent-fake-tree-genuine-signature".into(), kind: "forgery:consistent-fake-tree-genuine-signature".into(), must_refuse: true, proof: q });
            } else {
                cands.push(Cand { name: format!("forgery:consistent-fake-tree{suffix}"), kind: format!("forgery:consistent-fake-tree{suffix}"), must_refuse: true, proof: q });
            }
        }
    }
    if has_up {
        let cur_len = p.upgrade.as_ref().map(|u| u.start + u.length).unwrap_or(0);
        let _ = cur_len;
        let this_sig = &p.upgrade.as_ref().unwrap().signature;
        if let Some((_, s)) = st.sigs.iter().rev().find(|(_, s)| s != this_sig) {
            let mut q = p.clone();
            q.upgrade.as_mut().unwrap().signature = s.clone();
            cands.push(Cand { name: "forgery:signature-for-other-length".into(), kind: "forgery:signature-for-other-length".into(), must_refuse: true, proof: q });
        }
    }
    // value substituted by other bytes of the same length (whole block from the fake tree)
    if let (Some(b), Ok(Ok(Some(q)))) = (&p.block, create_proof(st.alt.core(), req)) {
        if let Some(qb) = &q.block {
            if qb.value != b.value {
                let mut q2 = p.clone();
                q2.block.as_mut().unwrap().value = qb.value.clone();
                cands.push(Cand { name: "forgery:substituted-block".into(), kind: "forgery:substituted-block".into(), must_refuse: true, proof: q2 });
            }
        }
    }
    // a section added to an honest proof: a block section with other bytes next to an honest
    // hash section for the same leaf, or a bogus hash section next to an honest block section.
    // Whatever section the verifier prefers, bytes the writer did not sign must not be stored.
    if let (Some(h), None) = (&p.hash, &p.block) {
        if h.index % 2 == 0 && !h.nodes.is_empty() {
            let i = h.index / 2;
            if (i as usize) < st.all_blocks.len() {
                let mut v = st.all_blocks[i as usize].clone();
                if v.is_empty() {
                    v.push(7);
                } else {
                    v[0] ^= 0x55;
                }
                let mut q = p.clone();
                q.block = Some(hypercore::DataBlock { index: i, value: v, nodes: h.nodes[1..].to_vec() });
                cands.push(Cand { name: "forgery:block-section-added-to-hash-proof".into(), kind: "forgery:added-section".into(), must_refuse: true, proof: q });
            }
        }
    }
    if let (Some(b), None) = (&p.block, &p.hash) {
        let mut q = p.clone();
        let mut nodes = vec![hypercore::Node::new(2 * b.index, vec![0x33; 32], b.value.len() as u64)];
        nodes.extend(b.nodes.iter().cloned());
        q.hash = Some(hypercore::DataHash { index: 2 * b.index, nodes });
        // the honest block section still authenticates: acceptance is legitimate only if the
        // result is indistinguishable from the honest proof (checked by the must-refuse rule)
        cands.push(Cand { name: "forgery:hash-section-added-to-block-proof".into(), kind: "forgery:added-section".into(), must_refuse: true, proof: q });
    }
    // stale genuine proofs
    let nst = st.stale.len();
    for (i, q) in st.stale.iter().enumerate().filter(|(i, _)| *i + 3 >= nst || *i == 0) {
        if q != p {
            cands.push(Cand { name: format!("stale#{i}"), kind: "stale".into(), must_refuse: false, proof: q.clone() });
        }
    }

    for c in cands {
        ctx.count("altered_proofs");
        ctx.eval(Some(crate::rng::fnv(format!("{:?}|{proof_no}|{}", st.writer.key.verifying_key().to_bytes(), c.name).as_bytes())));
        for s in mutate::SECTS {
            if c.name.contains(&format!("{s:?}")) {
                ctx.count("alteration_kinds_x_sections");
            }
        }
        if c.must_refuse {
            let res = apply_proof(a.core(), &c.proof);
            match &res {
                Err(pn) => {
                    ctx.violate(format!("panic-on-altered:{}:{}", c.kind, exec::panic_sig(pn)), format!("{}: {pn}", c.name), json!({"kind":"session","script": st.script, "alteration": c.name, "proof_no": proof_no}));
                    a = clone_by_replay(st)?;
                    files_a0 = crate::world::snapshot(&a.world);
                }
                Ok(Ok(true)) => {
                    // accepted: tolerated only if indistinguishable from the honest proof
                    let mut c2 = clone_by_reopen(&files_s, &st.replica.model, st.replica.cache)?;
                    let r2 = apply_proof(c2.core(), &c.proof);
                    let same = matches!(r2, Ok(Ok(true))) && obs_of(&mut c2) == obs_t && crate::world::snapshot(&c2.world) == files_t;
                    if same {
                        ctx.count(&format!("accepted_identical_to_honest:{}", c.kind));
                    } else {
                        ctx.violate(
                            format!("accepted-altered:{}", c.kind),
                            format!("replica accepted a proof altered by {} (must be refused); resulting state differs from the honest twin", c.name),
                            json!({"kind":"session","script": st.script, "alteration": c.name, "proof_no": proof_no}),
                        );
                    }
                    a = clone_by_replay(st)?;
                    files_a0 = crate::world::snapshot(&a.world);
                }
                _ => {
                    ctx.count(&format!("refused:{}", c.kind));
                    ctx.count(&format!("refused-as:{}", outcome_name(&res)));
                    let o = obs_of(&mut a);
                    let f = crate::world::snapshot(&a.world);
                    if o != obs_a0 {
                        ctx.violate(
                            format!("refused-but-changed:{}:observation", c.kind),
                            format!("proof altered by {} was refused ({}) but the replica's observation changed", c.name, outcome_name(&res)),
                            json!({"kind":"session","script": st.script, "alteration": c.name, "proof_no": proof_no}),
                        );
                        a = clone_by_replay(st)?;
                        files_a0 = crate::world::snapshot(&a.world);
                    } else if f != files_a0 {
                        // store bytes changed although nothing is observable now: the property speaks of
                        // observations, so this decides only if it becomes observable after a reopen
                        let mut ro = clone_by_reopen(&f, &st.replica.model, st.replica.cache)?;
                        if obs_of(&mut ro) != obs_a0 {
                            ctx.violate(
                                format!("refused-but-changed:{}:observation-after-reopen", c.kind),
                                format!("proof altered by {} was refused ({}) and the replica's stores changed so that a reopen shows a different state", c.name, outcome_name(&res)),
                                json!({"kind":"session","script": st.script, "alteration": c.name, "proof_no": proof_no}),
                            );
                        } else {
                            ctx.count("warn:refused-proof-changed-store-bytes-unobservably");
                        }
                        a = clone_by_replay(st)?;
                        files_a0 = crate::world::snapshot(&a.world);
                    }
                }
            }
        } else {
            let mut c2 = clone_by_reopen(&files_s, &st.replica.model, st.replica.cache)?;
            let o0 = obs_of(&mut c2);
            let res = apply_proof(c2.core(), &c.proof);
            match &res {
                Err(pn) => {
                    ctx.violate(format!("panic-on-altered:{}:{}", c.kind, exec::panic_sig(pn)), format!("{}: {pn}", c.name), json!({"kind":"session","script": st.script, "alteration": c.name, "proof_no": proof_no}));
                }
                Ok(Ok(true)) => {
                    ctx.count("accepted_legit");
                    ctx.count(&format!("accepted_legit:{}", c.kind));
                    if c.kind == "stale" {
                        ctx.count("stale:Ok(true)");
                    }
                    if let Err(f) = check_accepted(st, &mut c2, &c.kind) {
                        ctx.violate(f.sig, format!("{}: {}", c.name, f.detail), json!({"kind":"session","script": st.script, "alteration": c.name, "proof_no": proof_no}));
                    }
                }
                _ => {
                    ctx.count(&format!("refused:{}", c.kind));
                    if c.kind == "stale" {
                        ctx.count(&format!("stale:{}", outcome_name(&res)));
                    }
                    let o = obs_of(&mut c2);
                    let f = crate::world::snapshot(&c2.world);
                    if o != o0 {
                        ctx.violate(
                            format!("refused-but-changed:{}:observation", c.kind),
                            format!("proof altered by {} was refused ({}) but the replica's observation changed", c.name, outcome_name(&res)),
                            json!({"kind":"session","script": st.script, "alteration": c.name, "proof_no": proof_no}),
                        );
                    } else if f != files_s {
                        let mut ro = clone_by_reopen(&f, &st.replica.model, st.replica.cache)?;
                        if obs_of(&mut ro) != o0 {
                            ctx.violate(
                                format!("refused-but-changed:{}:observation-after-reopen", c.kind),
                                format!("proof altered by {} was refused ({}) and a reopen then shows a different state", c.name, outcome_name(&res)),
                                json!({"kind":"session","script": st.script, "alteration": c.name, "proof_no": proof_no}),
                            );
                        } else {
                            ctx.count("warn:refused-proof-changed-store-bytes-unobservably");
                        }
                    }
                }
            }
        }
    }
    // after the whole battery the honest proof must still be accepted by clone A
    match apply_proof(a.core(), p) {
        Ok(Ok(true)) => {
            let o = obs_of(&mut a);
            if o != obs_t {
                return Err(fail("honest-after-battery:state-differs", format!("{} vs twin {}", ops::short_obs(&o), ops::short_obs(&obs_t))));
            }
            ctx.count("honest_after_battery_ok");
            // and what was accepted after all those refusals is still there after a close/reopen
            // (a refusal must not leave the instance and its storage out of step)
            let f = crate::world::snapshot(&a.world);
            let mut ro = clone_by_reopen(&f, &a.model, a.cache)?;
            let o2 = obs_of(&mut ro);
            if o2 != o {
                return Err(fail("honest-after-battery:lost-at-reopen", format!("after the refused proofs the honest proof was accepted ({}) but a reopen shows {}", ops::short_obs(&o), ops::short_obs(&o2))));
            }
            ctx.count("honest_after_battery_survives_reopen");
        }
        other => return Err(fail(format!("honest-after-battery:{}", outcome_name(&other)), "after a series of refused proofs the honest proof was not accepted".to_string())),
    }
    Ok(())
}

fn session(ctx: &mut Ctx, r: &mut Rng, small: bool, cache: CacheMode) -> (Vec<Value>, Result<(), Fail>) {
    let mut st = match St::new(r.next_u64(), cache) {
        Ok(s) => s,
        Err(f) => return (vec![], Err(f)),
    };
    let mut tag = 1u32;
    let mut proof_no = 0usize;
    let res = (|| -> Result<(), Fail> {
        let rounds = 1 + r.below(3);
        for _ in 0..rounds {
            let mut wops = vec![];
            let n = 1 + r.below(if small { 4 } else { 9 });
            for _ in 0..n {
                if r.chance(1, 5) {
                    let k = 1 + r.below(3) as u32;
                    wops.push(Op::Batch((0..k).map(|i| (tag + i, gen::rand_block_len(r, 80))).collect()));
                    tag += k;
                } else {
                    wops.push(Op::Append(tag, gen::rand_block_len(r, 80)));
                    tag += 1;
                }
            }
            st.writer_ops(&wops)?;
            if r.chance(1, 4) && st.writer.model.length() > 1 {
                let s = r.below(st.writer.model.length());
                st.writer_ops(&[Op::Clear(s, s + 1)])?;
            }
            let nreq = 1 + r.below(if small { 3 } else { 5 });
            for _ in 0..nreq {
                let rl = st.replica.model.length();
                let wl = st.writer.model.length();
                let plan: Plan = repl::random_plan(r, rl, wl, &st.writer.model, &st.replica.model);
                if plan == Plan::default() {
                    continue;
                }
                st.script.push(json!({"r": plan.to_json()}));
                let req = st.replica.make_request(&plan)?;
                let p = match create_proof(st.writer.core(), &req) {
                    Ok(Ok(Some(p))) => p,
                    Ok(Ok(None)) => continue,
                    Ok(Err(e)) => return Err(fail(format!("scenario:create_proof:{}", ops::err_sig(&e)), format!("{e}"))),
                    Err(pn) => return Err(fail(format!("scenario:create_proof:panic:{}", exec::panic_sig(&pn)), pn)),
                };
                battery(ctx, &mut st, &req, &p, r, proof_no)?;
                proof_no += 1;
                ctx.count("honest_proofs");
                // main replica applies the honest proof
                match apply_proof(st.replica.core(), &p) {
                    Ok(Ok(true)) => {}
                    other => return Err(fail(format!("scenario:honest-refused:{}", outcome_name(&other)), format!("plan {plan:?}"))),
                }
                let w = st.writer.model.clone();
                st.replica.model_accept(&p, &w);
                st.replica.check(CMP_HAS, 64, "main replica").map_err(|f| fail(format!("scenario:{}", f.sig), f.detail))?;
                if let Some(u) = &p.upgrade {
                    st.sigs.push((st.writer.model.length(), u.signature.clone()));
                    st.stale.push(p.clone());
                } else if r.chance(1, 3) {
                    st.stale.push(p.clone());
                }
                st.accepted.push(p);
                if r.chance(1, 8) {
                    st.script.push(json!("reopen"));
                    st.replica.reopen()?;
                }
            }
        }
        Ok(())
    })();
    (st.script, res)
}

fn run_case(ctx: &mut Ctx, id: u64) {
    let mut r = ctx.case_rng(id);
    let small = id < 8 || r.chance(1, 2);
    // refusal must leave no trace in the replica's node cache either: a quarter of the sessions
    // each run with the replica's cache off, default, tiny and volatile
    let cache = ops::CACHE_MODES[(id % 4) as usize];
    let (script, res) = session(ctx, &mut r, small, cache);
    ctx.count("sessions");
    ctx.count(&format!("session_cache:{cache:?}"));
    if let Err(f) = res {
        if f.sig.starts_with("scenario:") || f.sig.starts_with("writer:") || f.sig.starts_with("shadow:") || f.sig.starts_with("missing_nodes") || f.sig.starts_with("replica-") {
            // the honest scenario itself broke (C03's business): unusable here, never a C04 verdict
            ctx.count("scenario_unusable");
            ctx.notes.push(format!("scenario unusable ({}): {}", f.sig, f.detail.chars().take(160).collect::<String>()));
        } else {
            ctx.violate(f.sig, f.detail, json!({"kind":"session","script": script}));
        }
    } else if id % 101 == 0 {
        ctx.sample(|| json!({"kind":"session","script": script.iter().take(10).collect::<Vec<_>>()}));
    }
}
