//! C05 — Merkle tree, root hash and signature match an independent reference.

use crate::framework::{Ctx, Spec};
use crate::gen;
use crate::ops::{self, Fail, Op, Sut};
use crate::props::c03;
use crate::refimpl::{self, RProof, RefTree};
use crate::rng::Rng;
use crate::world::{snapshot, World};
use hypercore::{Node, Proof, RequestUpgrade};
use merkle_tree_stream::Node as NodeTrait;
use serde_json::json;
use std::collections::BTreeMap;

pub static SPEC: Spec = Spec {
    id: "C05",
    level: "exploration",
    fixed_cases: |t| 131 + t.pick(0, 10),
    random_secs: |t| t.pick(12, 200),
    random_cap: |t| t.pick(200_000, 5_000_000),
    run_case,
    required: &[
        "reference_self_test_passed",
        "lengths_1_to_130_compared",
        "resumed_from_roots_then_extended",
        "proof_nodes_compared",
        "tree_slots_compared",
        "signatures_verified_strict",
        "entry_upgrades_verified",
        "proofs_verified_by_reference",
        "root_sets_with_7_roots",
        "replica_tree_slots_compared",
    ],
    rule: "a case = one writer history (block sizes 0..12288, every length 1..130 in quick, plus 255/256/257, 1023..1025, 32767..32769, 70000 in thorough, built by seeded mixes of single appends, batches and reopen steps) or one honest replication session; after EVERY operation the raw tree and oplog bytes are decoded by the reference reader and compared with a reference Merkle tree built from the block sequence alone: every non-zero 40-byte slot must be a full reference node with identical size and hash, after replaying unflushed entries every full reference node must be present, the header root hash and every entry upgrade must equal the reference root hash of that length, and every stored signature must verify (ed25519 verify_strict) under the core's public key over namespace||root hash||LE64(length)||LE64(fork) computed by the reference; every honest proof of the sessions is verified by the independent reference verifier (sibling paths, root stack, signature) and each carried node must equal the reference node of its index; distinct = history/session hash",
    assumptions: &[
        "trusted: BLAKE2b (blake2 crate) and Ed25519 verification (ed25519-dalek verify_strict) primitives, pinned by the hypercore-crypto known-answer vectors and a python hashlib/zlib cross-check each run",
        "the reference was written from the scheme description (DESIGN.md appendix A), not by calling hypercore / compact-encoding / flat-tree",
    ],
    exhaustive_note: "every log length 1..130 (all root-set shapes up to 7 roots) is compared node by node",
    hang_secs: 480,
};

fn n3(n: &Node) -> (u64, u64, [u8; 32]) {
    let mut h = [0u8; 32];
    let hb = n.hash();
    if hb.len() == 32 {
        h.copy_from_slice(hb);
    }
    (n.index(), n.len(), h)
}

pub fn to_rproof(p: &Proof) -> RProof {
    RProof {
        fork: p.fork,
        block: p.block.as_ref().map(|b| (b.index, b.value.clone(), b.nodes.iter().map(n3).collect())),
        hash: p.hash.as_ref().map(|b| (b.index, b.nodes.iter().map(n3).collect())),
        seek: p.seek.as_ref().map(|b| (b.bytes, b.nodes.iter().map(n3).collect())),
        upgrade: p.upgrade.as_ref().map(|u| (u.start, u.length, u.nodes.iter().map(n3).collect(), u.additional_nodes.iter().map(n3).collect(), u.signature.clone())),
    }
}

/// Compare the stores of a writer with the reference tree of `blocks`.
pub fn check_writer_files(ctx: &mut Ctx, files: &crate::world::Files, blocks: &[Vec<u8>], reft: &RefTree, pk: &[u8; 32]) -> Result<(), Fail> {
    let _ = blocks;
    let (st, op) = refimpl::read_state(files).map_err(|e| ops::fail("reference-reader-rejects-stores", e))?;
    // (i) every non-zero slot of the tree file is a reference node
    let on_disk = refimpl::read_tree_file(&files[0]);
    for (i, (size, hash)) in &on_disk {
        match reft.nodes.get(i) {
            Some((rs, rh)) if rs == size && rh == hash => {}
            Some((rs, rh)) => {
                let what = if rh != hash { "hash" } else { "size" };
                return Err(ops::fail(format!("tree-slot-differs:{what}"), format!("tree node {i}: stored size {size} hash {:02x?}.. reference size {rs} hash {:02x?}..", &hash[..4], &rh[..4])));
            }
            None => return Err(ops::fail("tree-slot-not-a-full-node", format!("tree file holds a node at index {i} that is not a full node of a {}-block log", reft.length))),
        }
        ctx.count("tree_slots_compared");
    }
    if st.length != reft.length {
        return Err(ops::fail("length-differs", format!("stores decode to length {} reference {}", st.length, reft.length)));
    }
    // after replaying the unflushed entries every full reference node is present
    for (i, (rs, rh)) in &reft.nodes {
        match st.nodes.get(i) {
            Some((s, h)) if s == rs && h == rh => {}
            Some(_) => return Err(ops::fail("node-differs-after-replay", format!("node {i}"))),
            None => return Err(ops::fail("reference-node-missing", format!("full node {i} of the reference is neither in the tree file nor in an oplog entry"))),
        }
    }
    // (ii) header root hash / signature
    if op.header.length > 0 {
        let rh = reft.root_hash_at(op.header.length);
        if op.header.root_hash != rh {
            return Err(ops::fail("header-root-hash-differs", format!("header (length {}) root hash {:02x?}.. reference {:02x?}..", op.header.length, &op.header.root_hash[..4.min(op.header.root_hash.len())], &rh[..4])));
        }
        if !refimpl::verify_sig(pk, &refimpl::signable(&rh, op.header.length, op.header.fork), &op.header.signature) {
            return Err(ops::fail("header-signature-invalid", format!("header signature does not verify for length {} fork {}", op.header.length, op.header.fork)));
        }
        ctx.count("signatures_verified_strict");
    }
    for e in &op.entries {
        if let Some((fork, _anc, len, sig)) = &e.upgrade {
            let rh = reft.root_hash_at(*len);
            if !refimpl::verify_sig(pk, &refimpl::signable(&rh, *len, *fork), sig) {
                return Err(ops::fail("entry-signature-invalid", format!("entry upgrade to length {len} fork {fork}: signature does not verify over the reference root hash")));
            }
            ctx.count("entry_upgrades_verified");
            ctx.count("signatures_verified_strict");
        }
    }
    if st.length > 0 {
        let rh = reft.root_hash_at(st.length);
        if st.root_hash != rh {
            return Err(ops::fail("replayed-root-hash-differs", format!("length {}", st.length)));
        }
        if !refimpl::verify_sig(pk, &refimpl::signable(&rh, st.length, st.fork), &st.signature) {
            return Err(ops::fail("current-signature-invalid", format!("length {}", st.length)));
        }
    }
    if refimpl::ft_roots(st.length).len() >= 7 {
        ctx.count("root_sets_with_7_roots");
    }
    Ok(())
}

fn history_for_length(l: u64, r: &mut Rng) -> Vec<Op> {
    let mut ops = vec![];
    let mut tag = 1u32;
    let mut n = 0u64;
    let big = l > 2000;
    while n < l {
        let rem = l - n;
        let mx = if r.chance(1, 3) { 9 } else { 1 };
        let k = if big { rem.min(1 + r.below(30_000)) } else { rem.min(1 + r.below(mx)) };
        if k == 1 && !r.chance(1, 4) {
            ops.push(Op::Append(tag, if big { 1 } else { gen::rand_block_len(r, 12288) }));
            tag += 1;
        } else {
            ops.push(Op::Batch((0..k as u32).map(|i| (tag + i, if big || k > 20 { 1 + (i % 3) } else { gen::rand_block_len(r, 3000) })).collect()));
            tag += k as u32;
        }
        n += k;
        if r.chance(1, if big { 2 } else { 6 }) {
            ops.push(Op::Reopen);
        }
        // clears flush the header without a new signature being made: the stored one must
        // still be the one for the current tree (also right after a reopen with pending entries)
        if r.chance(1, 5) {
            let s = r.below(n);
            ops.push(Op::Clear(s, s + 1));
            if r.chance(1, 2) {
                ops.push(Op::Clear(r.below(n), n + 1));
            }
        }
    }
    ops.push(Op::Reopen);
    ops
}

fn writer_case(ctx: &mut Ctx, ops: &[Op], key_seed: u64, every_op: bool) -> Result<u64, (usize, Fail)> {
    let world = World::new();
    // the node cache must not change any value: a quarter of the histories each run with it off,
    // default, tiny and volatile (forgets at once)
    let cache = ops::CACHE_MODES[(key_seed % 4) as usize];
    let mut sut = Sut::create(key_seed, world.clone(), cache).map_err(|f| (0, f))?;
    sut.plain_reopen_every = 2;
    let pk = sut.key.verifying_key().to_bytes();
    let mut reft = RefTree::default();
    let mut blocks: Vec<Vec<u8>> = vec![];
    let mut reopened = false;
    for (i, op) in ops.iter().enumerate() {
        sut.step(op).map_err(|f| (i, ops::fail(format!("scenario:{}", f.sig), f.detail)))?;
        for b in Sut::materialize(op) {
            reft.append(&b);
            blocks.push(b);
        }
        if matches!(op, Op::Reopen) {
            reopened = true;
        } else if reopened && matches!(op, Op::Append(..) | Op::Batch(..)) {
            ctx.count("resumed_from_roots_then_extended");
        }
        if every_op || i + 1 == ops.len() || matches!(op, Op::Reopen) {
            let files = snapshot(&world);
            check_writer_files(ctx, &files, &blocks, &reft, &pk).map_err(|f| (i, f))?;
        }
    }
    Ok(reft.length)
}

/// Every node a replica has persisted (tree file + unflushed oplog entries) must be the
/// reference node of its index.
fn check_replica_nodes(ctx: &mut Ctx, world: &std::sync::Arc<std::sync::Mutex<World>>, reft: &RefTree) -> Result<(), Fail> {
    let rfiles = snapshot(world);
    let mut rnodes = refimpl::read_tree_file(&rfiles[0]);
    if let Some(o) = refimpl::read_oplog(&rfiles[3]) {
        for e in &o.entries {
            for (i, s, h) in &e.nodes {
                rnodes.insert(*i, (*s, *h));
            }
        }
    }
    for (i, (s, h)) in &rnodes {
        match reft.nodes.get(i) {
            Some((rs, rh)) if rs == s && rh == h => {}
            _ => return Err(ops::fail("replica-persisted-node-differs", format!("replica persisted node {i} (size {s}) that is not the reference node of that index"))),
        }
        ctx.count("replica_tree_slots_compared");
    }
    Ok(())
}

/// The leaf node of every block the replica holds is persisted (tree file or unflushed oplog
/// entry): it arrived with the block and is what the block's bytes are authenticated by.
fn check_replica_leaves(ctx: &mut Ctx, world: &std::sync::Arc<std::sync::Mutex<World>>, model: &crate::model::Model) -> Result<(), Fail> {
    let rfiles = snapshot(world);
    let mut rnodes = refimpl::read_tree_file(&rfiles[0]);
    if let Some(o) = refimpl::read_oplog(&rfiles[3]) {
        for e in &o.entries {
            for (i, s, h) in &e.nodes {
                rnodes.insert(*i, (*s, *h));
            }
        }
    }
    for i in 0..model.length() {
        if model.has(i) {
            if !rnodes.contains_key(&(2 * i)) {
                return Err(ops::fail("replica-held-block-leaf-not-persisted", format!("the replica holds block {i} but tree node {} is neither in its tree store nor in an oplog entry", 2 * i)));
            }
            ctx.count("replica_held_leaves_found");
        }
    }
    Ok(())
}

/// Nodes in proofs served by the replica itself are reference nodes too.
fn check_replica_served(ctx: &mut Ctx, sess: &mut c03::Session, r: &mut Rng, reft: &RefTree) -> Result<(), Fail> {
    let rl = sess.pair.replica.model.length();
    let held: Vec<u64> = (0..rl).filter(|i| sess.pair.replica.model.has(*i)).collect();
    if held.is_empty() {
        return Ok(());
    }
    let i = *r.pick(&held);
    let up = if r.chance(1, 2) { Some(RequestUpgrade { start: 0, length: rl }) } else { None };
    let req = crate::repl::Request { block: Some(hypercore::RequestBlock { index: i, nodes: r.below(3) }), hash: None, seek: None, upgrade: up };
    // (whether the replica can serve it at all is C03's business)
    if let Ok(Ok(Some(p))) = crate::repl::create_proof(sess.pair.replica.core(), &req) {
        let rp = to_rproof(&p);
        let mut all: Vec<(u64, u64, [u8; 32])> = vec![];
        if let Some(b) = &rp.block {
            all.extend(b.2.iter().copied());
        }
        if let Some(u) = &rp.upgrade {
            all.extend(u.2.iter().copied());
            all.extend(u.3.iter().copied());
        }
        for (n, s, h) in &all {
            match reft.nodes.get(n) {
                Some((rs, rh)) if rs == s && rh == h => {}
                _ => return Err(ops::fail("replica-served-node-differs", format!("node {n} (size {s}) in a proof for block {i} served by the replica is not the reference node"))),
            }
            ctx.count("replica_served_nodes_compared");
        }
    }
    Ok(())
}

fn session_case(ctx: &mut Ctx, r: &mut Rng) -> Result<(), Fail> {
    // an honest C03 session, with every proof checked by the independent verifier
    let key_seed = r.next_u64();
    let cache = *r.pick(&ops::CACHE_MODES);
    ctx.count(&format!("session_cache:{cache:?}"));
    let mut sess = c03::Session::new(key_seed, cache)?;
    let pk = sess.pair.writer.key.verifying_key().to_bytes();
    let mut known: BTreeMap<u64, (u64, [u8; 32])> = BTreeMap::new();
    let mut rlen = 0u64;
    let mut reft = RefTree::default();
    let mut tag = 1u32;
    for _ in 0..(1 + r.below(3)) {
        let mut wops = vec![];
        for _ in 0..(1 + r.below(10)) {
            wops.push(Op::Append(tag, gen::rand_block_len(r, 400)));
            tag += 1;
        }
        for op in &wops {
            for b in Sut::materialize(op) {
                reft.append(&b);
            }
        }
        sess.writer_ops(&wops).map_err(|f| ops::fail(format!("scenario:{}", f.sig), f.detail))?;
        if r.chance(1, 4) {
            let wl = sess.pair.writer.model.length();
            let s = r.below(wl);
            sess.writer_ops(&[Op::Clear(s, s + 1)]).map_err(|f| ops::fail(format!("scenario:{}", f.sig), f.detail))?;
        }
        for _ in 0..(1 + r.below(8)) {
            let rl = sess.pair.replica.model.length();
            let wl = sess.pair.writer.model.length();
            let plan = crate::repl::random_plan(r, rl, wl, &sess.pair.writer.model, &sess.pair.replica.model);
            if plan == crate::repl::Plan::default() {
                continue;
            }
            // the writer sometimes closes and reopens (with unflushed entries) before serving
            if r.chance(1, 5) {
                sess.pair.writer.reopen().map_err(|f| ops::fail(format!("scenario:{}", f.sig), f.detail))?;
                ctx.count("writer_reopened_before_serving");
            }
            let req = sess.pair.replica.make_request(&plan).map_err(|f| ops::fail(format!("scenario:{}", f.sig), f.detail))?;
            let made = crate::repl::create_proof(sess.pair.writer.core(), &req);
            let res = match made {
                Ok(Ok(Some(p))) => Some(crate::repl::RoundResult::Applied(p)),
                Ok(Ok(None)) => None,
                other => return Err(ops::fail("scenario:create_proof", format!("{:?}", other.map(|x| x.map(|_| ()).map_err(|e| e.to_string()))))),
            };
            if let Some(crate::repl::RoundResult::Applied(p)) = res {
                let rp = to_rproof(&p);
                // each carried node equals the reference node of its index
                let mut all: Vec<(&str, (u64, u64, [u8; 32]))> = vec![];
                if let Some(b) = &rp.block {
                    all.extend(b.2.iter().map(|n| ("block", *n)));
                }
                if let Some(b) = &rp.hash {
                    all.extend(b.1.iter().map(|n| ("hash", *n)));
                }
                if let Some(b) = &rp.seek {
                    all.extend(b.1.iter().map(|n| ("seek", *n)));
                }
                if let Some(u) = &rp.upgrade {
                    all.extend(u.2.iter().map(|n| ("upgrade", *n)));
                    all.extend(u.3.iter().map(|n| ("additional", *n)));
                }
                for (sect, (i, s, h)) in &all {
                    match reft.nodes.get(i) {
                        Some((rs, rh)) if rs == s && rh == h => {}
                        Some(_) => return Err(ops::fail(format!("proof-node-differs:{sect}"), format!("node {i} carried in the {sect} section differs from the reference node (plan {plan:?})"))),
                        None => return Err(ops::fail(format!("proof-node-not-a-full-node:{sect}"), format!("node {i}"))),
                    }
                    ctx.count("proof_nodes_compared");
                }
                let v = refimpl::ref_verify(&rp, rlen, 0, &known, &pk).map_err(|e| ops::fail("reference-verifier-rejects-honest-proof", format!("plan {plan:?}: {e}")))?;
                ctx.count("proofs_verified_by_reference");
                if let Some(nl) = v.new_length {
                    if nl != wl {
                        return Err(ops::fail("proof-upgrade-length-differs", format!("proof upgrades to {nl}, writer has {wl}")));
                    }
                    if v.new_byte_length != Some(reft.byte_length_at(nl)) {
                        return Err(ops::fail("proof-upgrade-byte-length-differs", format!("{:?}", v.new_byte_length)));
                    }
                    rlen = nl;
                    ctx.count("signatures_verified_strict");
                }
                for (i, s, h) in v.learned {
                    known.insert(i, (s, h));
                }
                // a few corrupted variants first: whatever the replica makes of them, the nodes it
                // persists must stay reference nodes
                let mut alts = crate::mutate::alterations(&p, r, 1);
                r.shuffle(&mut alts);
                let (vals, others): (Vec<_>, Vec<_>) = alts.iter().filter(|a| a.must_refuse()).partition(|a| a.kind().starts_with("value-"));
                for alt in vals.iter().chain(others.iter().take(3)) {
                    if let Some(q) = crate::mutate::apply(&p, alt) {
                        let _ = crate::repl::apply_proof(sess.pair.replica.core(), &q);
                        ctx.count("corrupted_proofs_offered_to_replica");
                        check_replica_nodes(ctx, &sess.pair.replica.world, &reft).map_err(|f| ops::fail(format!("{}:after-corrupted-proof", f.sig), format!("after offering a proof altered by {}: {}", alt.kind(), f.detail)))?;
                    }
                }
                // only now the replica applies it (its acceptance is C03's business)
                match crate::repl::apply_proof(sess.pair.replica.core(), &p) {
                    Ok(Ok(true)) => {
                        let w = sess.pair.writer.model.clone();
                        sess.pair.replica.model_accept(&p, &w);
                    }
                    other => return Err(ops::fail("scenario:replica-refused", format!("{:?}", other.map(|x| x.map_err(|e| e.to_string()))))),
                }
                check_replica_nodes(ctx, &sess.pair.replica.world, &reft)?;
                if r.chance(1, 3) {
                    check_replica_served(ctx, &mut sess, r, &reft)?;
                }
                // the replica sometimes closes and reopens with unflushed entries; what it holds
                // must stay backed by persisted reference nodes, also after the next flush
                if r.chance(1, 4) {
                    sess.pair.replica.reopen().map_err(|f| ops::fail(format!("scenario:{}", f.sig), f.detail))?;
                    ctx.count("replica_reopened");
                }
                let m = sess.pair.replica.model.clone();
                check_replica_leaves(ctx, &sess.pair.replica.world, &m)?;
            }
        }
    }
    Ok(())
}

fn run_case(ctx: &mut Ctx, id: u64) {
    let t = ctx.tier;
    let mut r = ctx.case_rng(id);
    if id == 0 {
        let f = refimpl::self_test();
        if f.is_empty() {
            ctx.count("reference_self_test_passed");
        } else {
            ctx.notes.push(format!("reference self test failed: {f:?}"));
        }
        ctx.eval(None);
        return;
    }
    let report = |ctx: &mut Ctx, sig: String, detail: String, replay: serde_json::Value| {
        if sig.starts_with("scenario:") {
            ctx.count("scenario_unusable");
            ctx.notes.push(format!("scenario unusable: {sig} {}", detail.chars().take(120).collect::<String>()));
        } else {
            ctx.violate(sig, detail, replay);
        }
    };
    let fixed = 131 + t.pick(0, 10);
    if id < fixed {
        let l = if id <= 130 { id } else { [255u64, 256, 257, 1023, 1024, 1025, 32767, 32768, 32769, 70000][(id - 131) as usize] };
        let ops = history_for_length(l, &mut r);
        ctx.eval(Some(ops::ops_hash(&ops)));
        match writer_case(ctx, &ops, 500 + id, l <= 2000) {
            Ok(n) => {
                if n == l && l <= 130 {
                    ctx.count("lengths_1_to_130_compared");
                }
                if id % 37 == 1 {
                    ctx.sample(|| json!({"kind":"writer-history","length":l,"ops": ops.iter().take(8).map(|o| format!("{o:?}").chars().take(60).collect::<String>()).collect::<Vec<_>>()}));
                }
            }
            Err((i, f)) => report(ctx, f.sig, format!("op #{i}: {}", f.detail), json!({"kind":"history","length":l})),
        }
        return;
    }
    if r.chance(1, 2) {
        ctx.count("sessions");
        ctx.eval(Some(r.0));
        if let Err(f) = session_case(ctx, &mut r) {
            report(ctx, f.sig, f.detail, json!({"kind":"session"}));
        }
    } else {
        let l = 1 + r.below(300);
        let ops = history_for_length(l, &mut r);
        ctx.count("random_histories");
        ctx.eval(Some(ops::ops_hash(&ops)));
        let ks = r.next_u64();
        if let Err((i, f)) = writer_case(ctx, &ops, ks, true) {
            report(ctx, f.sig, format!("op #{i}: {}", f.detail), json!({"kind":"history","ops":ops::ops_to_json(&ops)}));
        }
    }
}
