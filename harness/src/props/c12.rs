//! C12 — secret key hygiene: read-only cores cannot write and leave no key on disk.

use crate::crash::{self, CrashOpts, Mode};
use crate::exec;
use crate::framework::{Ctx, Spec};
use crate::gen;
use crate::model::*;
use crate::ops::{self, build_core, fail, keypair, CacheMode, Fail, Op, Sut};
use crate::refimpl;
use crate::repl::{self, Plan, Replica};
use crate::rng::Rng;
use crate::world::{snapshot, Files, World};
use hypercore::HypercoreError;
use serde_json::json;

pub static SPEC: Spec = Spec {
    id: "C12",
    level: "fault_enumeration",
    fixed_cases: |_| 64 + 8,
    random_secs: |t| t.pick(12, 180),
    random_cap: |t| t.pick(100_000, 3_000_000),
    run_case,
    required: &[
        "mro_calls",
        "secret_in_both_slots_before",
        "mro_with_unflushed_0",
        "mro_with_unflushed_1",
        "mro_with_unflushed_2",
        "mro_with_unflushed_3",
        "mro_with_slot_0_current",
        "mro_with_slot_1_current",
        "mro_on_replica",
        "append_refused_no_storage_ops",
        "crash_points_inside_mro",
        "keypair_with_open_rejected",
        "reopen_recovers_key_and_writability",
        "second_call_false",
    ],
    rule: "a case = one writer history (or replica session) with make_read_only at some position; monitors: (i) on every core without secret key (replica, after make_read_only, reopened read-only) append and append_batch return exactly NotWritable, issue zero mutating storage operations and change no observation; (ii) after make_read_only returned Ok(true) none of the four store images contains any 16-byte window of the 32-byte secret seed, reopen gives writeable=false, the same public key and model-equal data, a second call returns Ok(false) with zero mutating operations; (iii) every crash point inside make_read_only (journal prefixes): reopen succeeds, data equal the model, writeable may be either, and the continuation behaves accordingly; (iv) open(true) recovers public key and writability after every history; key_pair(..).open(true) is rejected and touches no store; histories: bounded-exhaustive (L<=3 symbols then make_read_only, at each position) plus random; evaluations = histories + crash points",
    assumptions: &["block payloads are generated pseudo-randomly and cannot contain key material"],
    exhaustive_note: "make_read_only after every symbol sequence of length 3 over the 8-symbol alphabet, and all crash points inside each call",
    hang_secs: 120,
};

fn contains_secret(files: &Files, secret: &[u8; 32]) -> Option<(usize, usize)> {
    for (si, f) in files.iter().enumerate() {
        if f.len() < 16 {
            continue;
        }
        for w in 0..=16 {
            let needle = &secret[w..w + 16];
            if let Some(p) = f.windows(16).position(|x| x == needle) {
                return Some((si, p));
            }
        }
    }
    None
}

fn muts(sut: &Sut) -> u64 {
    sut.world.lock().unwrap().muts
}

fn check_append_refused(ctx: &mut Ctx, sut: &mut Sut) -> Result<(), Fail> {
    let cap = sut.get_cap;
    let o0 = observe(sut.core(), cap);
    let f0 = snapshot(&sut.world);
    let m0 = muts(sut);
    for batch in [false, true] {
        let r = if batch {
            exec::call(sut.core().append_batch(&[b"abc".to_vec(), b"".to_vec()]))
        } else {
            exec::call(sut.core().append(b"payload"))
        };
        match r {
            Ok(Err(HypercoreError::NotWritable)) => {}
            Ok(Ok(o)) => return Err(fail("append-accepted-without-secret", format!("append on a core without secret key returned {o:?}"))),
            Ok(Err(e)) => return Err(fail(format!("append-wrong-error:{}", ops::err_sig(&e)), format!("{e}"))),
            Err(p) => return Err(fail(format!("append-panic:{}", exec::panic_sig(&p)), p)),
        }
    }
    if muts(sut) != m0 {
        return Err(fail("refused-append-touched-storage", format!("{} mutating storage operations issued by refused appends", muts(sut) - m0)));
    }
    if snapshot(&sut.world) != f0 || observe(sut.core(), cap) != o0 {
        return Err(fail("refused-append-changed-state", "observation or store bytes changed"));
    }
    ctx.count("append_refused_no_storage_ops");
    Ok(())
}

/// Writer history ending with make_read_only at position `pos` (ops after it still run).
fn mro_history(ctx: &mut Ctx, ops: &[Op], key_seed: u64) -> Result<(), (usize, Fail)> {
    let world = World::new();
    let mut sut = Sut::create(key_seed, world.clone(), CacheMode::None).map_err(|f| (0, f))?;
    sut.cmp_mask = CMP_ALL;
    // every second reopen is a plain build() on the existing storage: the stored public key and
    // writability must be recovered there too
    sut.plain_reopen_every = 2;
    let secret: [u8; 32] = sut.key.to_bytes();
    let public = sut.key.verifying_key().to_bytes();
    for (i, op) in ops.iter().enumerate() {
        let e = |f: Fail| (i, f);
        if matches!(op, Op::MakeReadOnly) {
            let files = snapshot(&world);
            if sut.model.writable {
                // coverage: where is the secret now, which slot is current, how many unflushed
                if let Some(o) = refimpl::read_oplog(&files[3]) {
                    ctx.count(&format!("mro_with_unflushed_{}", o.entries.len().min(3)));
                    ctx.count(&format!("mro_with_slot_{}_current", o.slot));
                    let in0 = files[3].len() >= 4096 && files[3][..4096].windows(32).any(|w| w == secret);
                    let in1 = files[3].len() >= 8192 && files[3][4096..8192].windows(32).any(|w| w == secret);
                    if in0 && in1 {
                        ctx.count("secret_in_both_slots_before");
                    }
                }
                if contains_secret(&files, &secret).is_none() {
                    return Err(e(fail("harness:secret-not-found-before", "secret seed not found in any store before make_read_only (scan would be vacuous)")));
                }
            }
            let was_writable = sut.model.writable;
            let m0 = muts(&sut);
            sut.step(op).map_err(e)?;
            ctx.count("mro_calls");
            if !was_writable {
                if muts(&sut) != m0 {
                    return Err(e(fail("second-call-touched-storage", "make_read_only on a read-only core issued mutating storage operations")));
                }
                ctx.count("second_call_false");
            }
            let files = snapshot(&world);
            if let Some((si, p)) = contains_secret(&files, &secret) {
                return Err(e(fail(
                    format!("secret-left-on-disk:{}", crate::world::STORE_NAMES[si]),
                    format!("after make_read_only returned, store {} still contains key material at byte {p}", crate::world::STORE_NAMES[si]),
                )));
            }
            if sut.core().key_pair().secret.is_some() {
                return Err(e(fail("secret-left-in-memory", "key_pair() still exposes a secret key")));
            }
            // second call reports that nothing changed
            let m1 = muts(&sut);
            sut.step(&Op::MakeReadOnly).map_err(e)?;
            if muts(&sut) != m1 {
                return Err(e(fail("second-call-touched-storage", "second make_read_only issued mutating storage operations")));
            }
            ctx.count("second_call_false");
        } else {
            sut.step(op).map_err(e)?;
        }
        sut.check(&format!("after op #{i}")).map_err(e)?;
        if !sut.model.writable {
            check_append_refused(ctx, &mut sut).map_err(e)?;
            // once read-only, no later operation (clears flush the header again) may bring key
            // material back to any store
            let files = snapshot(&world);
            if let Some((si, p)) = contains_secret(&files, &secret) {
                return Err(e(fail(
                    format!("secret-back-on-disk-after:{}:{}", op.kind(), crate::world::STORE_NAMES[si]),
                    format!("store {} contains key material at byte {p} after op #{i} {:?} on a core that was made read-only earlier", crate::world::STORE_NAMES[si], op),
                )));
            }
            ctx.count("scans_after_later_ops");
        }
        if matches!(op, Op::Reopen) {
            // (iv) public key and writability recovered
            let kp = sut.core().key_pair().clone();
            if kp.public.to_bytes() != public {
                return Err(e(fail("reopen-wrong-public-key", "open(true) recovered a different public key")));
            }
            if kp.secret.is_some() != sut.model.writable {
                return Err(e(fail("reopen-wrong-writability", format!("secret present: {} expected writable: {}", kp.secret.is_some(), sut.model.writable))));
            }
            if let Some(s) = &kp.secret {
                if s.to_bytes() != secret {
                    return Err(e(fail("reopen-wrong-secret", "recovered secret differs")));
                }
            }
            ctx.count("reopen_recovers_key_and_writability");
        }
    }
    // key pair together with open mode is rejected and touches no store
    let f0 = snapshot(&world);
    let ops0 = world.lock().unwrap().op_counter;
    drop(sut);
    // (every kind of key pair: the core's own or another one, with or without the secret half)
    for (ks, with_secret, what) in [(key_seed, true, "own-full"), (key_seed, false, "own-public-only"), (key_seed ^ 0x77, true, "other-full"), (key_seed ^ 0x77, false, "other-public-only")] {
        match build_core(&world, Some(keypair(&ops::key_from_seed(ks), with_secret)), true, CacheMode::None) {
            Ok(Err(HypercoreError::BadArgument { .. })) => {}
            Ok(Err(e2)) => return Err((ops.len(), fail(format!("keypair-with-open:{what}:wrong-error:{}", ops::err_sig(&e2)), format!("{e2}")))),
            Ok(Ok(_)) => return Err((ops.len(), fail(format!("keypair-with-open:{what}:accepted"), "builder accepted a key pair together with open(true)"))),
            Err(p) => return Err((ops.len(), fail(format!("keypair-with-open:{what}:panic:{}", exec::panic_sig(&p)), p))),
        }
        if snapshot(&world) != f0 || world.lock().unwrap().op_counter != ops0 {
            return Err((ops.len(), fail(format!("keypair-with-open:{what}:touched-storage"), "rejected build touched the stores")));
        }
        ctx.count("keypair_kinds_with_open_rejected");
    }
    ctx.count("keypair_with_open_rejected");
    Ok(())
}

fn crash_inside_mro(ctx: &mut Ctx, ops: &[Op], key_seed: u64, r: &mut Rng, tear: bool) {
    let rec = match crash::record_history(key_seed, ops) {
        Ok(r) => r,
        Err((i, f)) => {
            ctx.count("scenario_unusable");
            ctx.notes.push(format!("record failed at op {i}: {}", f.sig));
            return;
        }
    };
    let before = ctx.counters.get("crash_points").copied().unwrap_or(0);
    // a crash can also leave the write it interrupted partly done (byte prefixes of each write
    // of the call): the torn header slot must lose against the other one, with all data
    let o = CrashOpts {
        mode: if tear { Mode::Tear { random_cuts: 2 } } else { Mode::Crash },
        mask: CMP_ALL,
        get_cap: 64,
        only: None,
        only_kind: Some("make_read_only"),
        prop: "C12",
        continuation: true,
    };
    // informational (outside the letter of the property, which promises a clean disk only once
    // the call has returned): a crash after the first header write recovers a read-only core
    // whose other header slot still holds the key; a later make_read_only answers false
    let secret: [u8; 32] = ops::key_from_seed(key_seed).to_bytes();
    let mut ro_with_secret = 0u64;
    let mut ro_clean = 0u64;
    {
        let mut extra = |s: &mut Sut| -> Result<(), Fail> {
            if !s.model.writable {
                if contains_secret(&snapshot(&s.world), &secret).is_some() {
                    ro_with_secret += 1;
                } else {
                    ro_clean += 1;
                }
            }
            Ok(())
        };
        crash::enumerate_with(ctx, &rec, &o, r, Some(&mut extra));
    }
    ctx.add("info:recovered_read_only_with_key_material_left_in_a_slot", ro_with_secret);
    ctx.add("info:recovered_read_only_and_clean", ro_clean);
    let after = ctx.counters.get("crash_points").copied().unwrap_or(0);
    ctx.add("crash_points_inside_mro", after - before);
}

fn replica_case(ctx: &mut Ctx, r: &mut Rng) -> Result<(), Fail> {
    let mut w = Sut::create(r.next_u64(), World::new(), CacheMode::None)?;
    let mut rep = Replica::create(&w.key, CacheMode::None)?;
    let secret: [u8; 32] = w.key.to_bytes();
    let n = 1 + r.below(6) as u32;
    repl::apply_writer_ops(&mut w, &(0..n).map(|i| Op::Append(i + 1, 5 + i)).collect::<Vec<_>>())?;
    repl::round(&mut w, &mut rep, &Plan { upgrade: Some(n as u64), block: Some(r.below(n as u64)), ..Default::default() })?;
    if r.chance(1, 2) {
        rep.reopen()?;
    }
    // a replica never had the secret: nothing on disk, appends refused, make_read_only = false
    let files = snapshot(&rep.world);
    if let Some((si, p)) = contains_secret(&files, &secret) {
        return Err(fail(format!("secret-on-replica-disk:{}", crate::world::STORE_NAMES[si]), format!("byte {p}")));
    }
    let model = rep.model.clone();
    let mut sut = Sut {
        world: rep.world.clone(),
        core: rep.core.take(),
        model,
        key: w.key.clone(),
        cache: CacheMode::None,
        get_cap: 64,
        cmp_mask: CMP_ALL,
        steps: 0,
        plain_reopen_every: 0,
        reopens: 0,
    };
    check_append_refused(ctx, &mut sut)?;
    let m0 = muts(&sut);
    match exec::call(sut.core().make_read_only()) {
        Ok(Ok(false)) => {}
        other => return Err(fail("mro-on-replica:result", format!("{:?}", other.map(|x| x.map_err(|e| e.to_string()))))),
    }
    if muts(&sut) != m0 {
        return Err(fail("mro-on-replica:touched-storage", "make_read_only on a replica issued mutating storage operations"));
    }
    ctx.count("mro_on_replica");
    sut.check("replica after make_read_only")?;
    Ok(())
}

fn run_case(ctx: &mut Ctx, id: u64) {
    let mut r = ctx.case_rng(id);
    let alphabet: Vec<u8> = (0..gen::ALPHABET as u8).collect();
    let report = |ctx: &mut Ctx, i: usize, f: Fail, ops: &[Op]| {
        // after make_read_only the property itself promises "reopens read-only with all data
        // intact": a model mismatch or failing reopen there is a C12 matter
        let after_mro = ops[..i.min(ops.len())].iter().any(|o| matches!(o, Op::MakeReadOnly));
        if after_mro && (f.sig.starts_with("obs:") || f.sig.contains("reopen:")) {
            ctx.violate(format!("after-make_read_only:{}", f.sig), format!("op #{i}: {}", f.detail), json!({"kind":"history","ops":ops::ops_to_json(ops)}));
            return;
        }
        if f.sig.starts_with("step:") || f.sig.starts_with("obs:") || f.sig.starts_with("build:") || f.sig.contains("reopen:err") {
            // not a key-hygiene observation: the history itself misbehaved (C01/C02's business)
            ctx.count("scenario_unusable");
            ctx.notes.push(format!("history unusable at op {i}: {} {}", f.sig, f.detail.chars().take(120).collect::<String>()));
        } else {
            ctx.violate(f.sig, format!("op #{i}: {}", f.detail), json!({"kind":"history","ops":ops::ops_to_json(ops)}));
        }
    };
    if id < 64 {
        let prefix = gen::prefix_of_chunk(id, 2, &alphabet);
        let mut seqs: Vec<Vec<u8>> = vec![];
        gen::for_each_sequence(&prefix, 3, &alphabet, |s| seqs.push(s.to_vec()));
        for s in seqs {
            if let Some(mut ops) = gen::concretize(&s) {
                let len: u64 = ops.iter().map(|o| match o { Op::Append(..) => 1, Op::Batch(b) => b.len() as u64, _ => 0 }).sum();
                ops.push(Op::MakeReadOnly);
                // the same instance keeps working (clears reach the periodic flush) before it is closed
                if len > 0 {
                    for k in 0..5 {
                        ops.push(Op::Clear(k % len, k % len + 1));
                    }
                }
                ops.push(Op::Reopen);
                ops.push(Op::Get(0));
                ctx.count("exhaustive_histories");
                ctx.eval(Some(ops::ops_hash(&ops)));
                if let Err((i, f)) = mro_history(ctx, &ops, 7) {
                    report(ctx, i, f, &ops);
                }
                let tear = ops::ops_hash(&ops) % 4 == 0;
                crash_inside_mro(ctx, &ops, 7, &mut r, tear);
                if ctx.violations.len() > 6 {
                    return;
                }
            }
        }
        return;
    }
    if id < 72 || r.chance(1, 6) {
        ctx.count("replica_cases");
        ctx.eval(Some(r.0));
        if let Err(f) = replica_case(ctx, &mut r) {
            if f.sig.starts_with("writer:") || f.sig.starts_with("verify:") || f.sig.starts_with("create_proof:") || f.sig.starts_with("replica-") || f.sig.starts_with("missing_nodes") {
                ctx.count("scenario_unusable");
            } else {
                ctx.violate(f.sig, f.detail, json!({"kind":"case"}));
            }
        }
        return;
    }
    let cfg = gen::RandCfg { max_ops: 30, reopen_pct: 12, clear_pct: 15, read_pct: 8, max_block: 200, big_batch: 0, far_clear: false };
    let mut ops = gen::random_history(&mut r, &cfg);
    let pos = r.below(ops.len() as u64 + 1) as usize;
    ops.insert(pos, Op::MakeReadOnly);
    if r.chance(1, 2) {
        ops.push(Op::Reopen);
    }
    // later clears may start beyond the length only if appends were refused; drop such clears
    let mut len = 0u64;
    let mut ro = false;
    ops.retain(|o| match o {
        Op::MakeReadOnly => {
            ro = true;
            true
        }
        Op::Append(..) => {
            if !ro {
                len += 1;
            }
            true
        }
        Op::Batch(b) => {
            if !ro {
                len += b.len() as u64;
            }
            true
        }
        Op::Clear(s, _) => *s < len,
        _ => true,
    });
    let ks = r.next_u64();
    ctx.count("random_histories");
    ctx.eval(Some(ops::ops_hash(&ops)));
    if let Err((i, f)) = mro_history(ctx, &ops, ks) {
        report(ctx, i, f, &ops);
    }
    let tear = r.chance(1, 3);
    if tear {
        ctx.count("histories_with_torn_writes_inside_mro");
    }
    crash_inside_mro(ctx, &ops, ks, &mut r, tear);
    if id % 401 == 0 {
        ctx.sample(|| json!({"kind":"history","ops":ops::ops_to_json(&ops[..ops.len().min(16)])}));
    }
}
