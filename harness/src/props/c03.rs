//! C03 — any honest proof is accepted and replicas converge to the writer's data.

use crate::framework::{Ctx, Spec, Tier};
use crate::gen;
use crate::model::*;
use crate::ops::{self, CacheMode, Fail, Op};
use crate::refimpl;
use crate::repl::{self, Pair, Plan, RoundResult};
use crate::rng::Rng;
use serde_json::{json, Value};

pub static SPEC: Spec = Spec {
    id: "C03",
    level: "exploration",
    fixed_cases: |t| exh_cases(t) + DIRECTED,
    random_secs: |t| t.pick(15, 240),
    random_cap: |t| t.pick(200_000, 5_000_000),
    run_case,
    required: &[
        "shape:block:noupg:first",
        "shape:block:noupg:nonfirst",
        "shape:block:full:first:in-upgrade",
        "shape:block:full:nonfirst:in-upgrade",
        "shape:block:partial:first:in-upgrade",
        "shape:block:partial:nonfirst:in-upgrade",
        "shape:block:full:first",
        "shape:hash:noupg:first",
        "shape:hash:noupg:nonfirst",
        "shape:hash:full:nonfirst:in-upgrade",
        "shape:hash:partial:first:in-upgrade",
        "shape:seek:noupg:na",
        "shape:seek:full:na",
        "shape:seek:partial:na",
        "shape:block+seek:noupg:first",
        "shape:none:full:na",
        "shape:none:partial:na",
        "replica_reopen_replayed_flags_10",
        "replica_reopen_replayed_flags_6",
        "replica_reopen_replayed_flags_14",
        "cleared_block_requested",
        "sessions_completed",
        "big_log_session",
        "block+seek_elsewhere_in_proven_subtree",
        "writer_clear_path_session",
        "second_hop_sessions",
        "second_hop_upgrade_served:live",
        "second_hop_upgrade_served:reopened",
    ],
    rule: "a case = one replication session: writer history (appends, batches, clears) in 1-4 growth rounds interleaved with well-formed replica requests (W1-W5 of DESIGN.md 2.4: upgrade iff behind, block/hash index inside the target, node counts from the replica's own missing_nodes, optional in-range seek - alone anywhere in the log, together with a block anywhere inside the sub-tree the proof spans) and replica reopens; oracle after EVERY round: create_proof = Ok(Some) (Ok(None) iff the block is cleared on the writer), verify_and_apply_proof = Ok(true), replica observation (info, has, get of every index) equals the replica model (holds exactly the received blocks, byte-identical to the writer's; length/byte length = writer's at last upgrade); at the end 'fetch everything missing' must converge and survive a reopen, and - when the replica then holds the whole log - a fresh second replica must be able to replicate from the first one alone under the same oracle (second hop; served by the live instance or after a reopen); bounded-exhaustive: all request sequences of length 3 (quick) / 4 (thorough) over {block i, nameable node j, seek 0/mid/end} for logs of 1..5 blocks x every first-upgrade length; random sessions up to 300 blocks and one 70000-block log; distinct = session script hash; non-trivial = at least one accepted proof",
    assumptions: &[
        "well-formed request = W1-W5 (hash nodes straddling the replica length and seek+block inside the upgraded range are excluded: the scheme has no defined answer; C09 sends them)",
    ],
    exhaustive_note: "all request sequences of the stated length over the request alphabet of logs with 1..5 blocks, for every admissible first upgrade length",
    hang_secs: 360,
};

const DIRECTED: u64 = 12;

fn exh_cases(_t: Tier) -> u64 {
    // (n in 1..=5) x (u in 1..=n) = 15 combos, each split by first request symbol (<=16) => chunks
    15 * 16
}

fn alphabet(n: u64) -> Vec<Plan> {
    let mut v: Vec<Plan> = vec![];
    for i in 0..n {
        v.push(Plan { block: Some(i), ..Default::default() });
    }
    for j in repl::nameable_nodes(n, n) {
        v.push(Plan { hash: Some(j), ..Default::default() });
    }
    // three seeks resolved against the byte length at run time: encoded as u64::MAX-k
    for k in 0..3u64 {
        v.push(Plan { seek: Some(u64::MAX - k), ..Default::default() });
    }
    v
}

pub struct Session {
    pub pair: Pair,
    pub script: Vec<Value>,
    pub accepted: u64,
}

impl Session {
    pub fn new(key_seed: u64, cache: CacheMode) -> Result<Session, Fail> {
        Ok(Session {
            pair: Pair::new(key_seed, cache)?,
            script: vec![],
            accepted: 0,
        })
    }
    pub fn writer_ops(&mut self, ops: &[Op]) -> Result<(), Fail> {
        self.script.push(json!({"w": crate::ops::ops_to_json(ops)}));
        repl::apply_writer_ops(&mut self.pair.writer, ops)
    }
    /// one request round with the full oracle
    pub fn request(&mut self, ctx: &mut Ctx, plan: &Plan) -> Result<Option<RoundResult>, Fail> {
        let rl = self.pair.replica.model.length();
        let wl = self.pair.writer.model.length();
        if plan.block.is_none() && plan.hash.is_none() && plan.seek.is_none() && plan.upgrade.is_none() {
            return Ok(None); // nothing to ask for (both logs empty)
        }
        let shape = repl::shape(plan, rl, wl);
        self.script.push(json!({"r": plan.to_json()}));
        let res = self.pair.round(plan).map_err(|mut f| {
            f.sig = format!("{}|{}", f.sig, shape);
            f
        })?;
        ctx.count(&format!("shape:{shape}"));
        ctx.count("proofs");
        match &res {
            RoundResult::Applied(p) => {
                self.accepted += 1;
                ctx.count("accepted");
                let _ = p;
            }
            RoundResult::NoProofCleared => ctx.count("cleared_block_requested"),
        }
        self.pair
            .replica
            .check(CMP_HAS, 400, &format!("after {shape}"))
            .map_err(|mut f| {
                f.sig = format!("{}|{}", f.sig, shape);
                f.detail = format!("plan {:?}: {}", plan, f.detail);
                f
            })?;
        Ok(Some(res))
    }
    pub fn reopen_replica(&mut self, ctx: &mut Ctx) -> Result<(), Fail> {
        self.script.push(json!("reopen"));
        let files = crate::world::snapshot(&self.pair.replica.world);
        if let Some(o) = refimpl::read_oplog(&files[3]) {
            for f in &o.entry_flags {
                ctx.count(&format!("replica_reopen_replayed_flags_{f}"));
            }
        }
        let cap = 400;
        let before = observe(self.pair.replica.core(), cap);
        self.pair.replica.reopen()?;
        let after = self.pair.replica.check(CMP_HAS, cap, "after replica reopen")?;
        if before != after {
            return Err(crate::ops::fail("replica-reopen-changed-observation", format!("before {} after {}", crate::ops::short_obs(&before), crate::ops::short_obs(&after))));
        }
        ctx.count("replica_reopens");
        Ok(())
    }
    pub fn finish(&mut self, ctx: &mut Ctx) -> Result<(), Fail> {
        let n = self.pair.complete()?;
        ctx.add("completion_rounds", n);
        self.pair.replica.check(CMP_HAS | CMP_CONTIG, 400, "after completion")?;
        let h = crate::rng::fnv(serde_json::to_string(&self.script).unwrap().as_bytes());
        if h % 3 != 0 {
            self.second_hop(ctx, h, "live")?;
        }
        self.pair.replica.reopen()?;
        self.pair.replica.check(CMP_HAS, 400, "after completion + reopen")?;
        if h % 3 == 0 {
            self.second_hop(ctx, h, "reopened")?;
        }
        ctx.count("sessions_completed");
        Ok(())
    }
    /// Second hop: a replica that holds every block of the log is itself an honest source. A
    /// fresh replica replicates from it alone (random well-formed requests, then completion);
    /// the same oracle applies with the first replica in the writer's place. `when` = whether
    /// the serving replica is the live instance (whose last accepted proof usually carried no
    /// upgrade) or was closed and reopened after completion.
    fn second_hop(&mut self, ctx: &mut Ctx, h: u64, when: &str) -> Result<(), Fail> {
        let len = self.pair.replica.model.length();
        if len == 0 || len > 48 || (0..len).any(|i| self.pair.replica.model.get(i).is_none()) {
            return Ok(()); // not a full copy (the writer cleared blocks) or too big for every session
        }
        let mut r = Rng::new(h ^ 0x5EC0_4D40);
        let tag = |mut f: Fail| {
            f.sig = format!("second-hop:{when}:{}", f.sig);
            f.detail = format!("served by the converged first replica ({when}): {}", f.detail);
            f
        };
        let mut r2 = repl::Replica::create(&self.pair.writer.key, self.pair.replica.cache).map_err(tag)?;
        let src = &mut self.pair.replica;
        let nreq = 1 + r.below(4);
        for _ in 0..nreq {
            let rl = r2.model.length();
            let p = repl::random_plan(&mut r, rl, len, &src.model, &r2.model);
            if p.block.is_none() && p.hash.is_none() && p.seek.is_none() && p.upgrade.is_none() {
                continue;
            }
            let shape = repl::shape(&p, rl, len);
            repl::round_from(src.core.as_mut().unwrap(), &src.model, &mut r2, &p).map_err(|mut f| {
                f.sig = format!("{}|{}", f.sig, shape);
                f.detail = format!("plan {:?}: {}", p, f.detail);
                tag(f)
            })?;
            ctx.count("second_hop_proofs");
            if p.upgrade.is_some() {
                ctx.count(&format!("second_hop_upgrade_served:{when}"));
            }
            r2.check(CMP_HAS, 400, "second hop").map_err(tag)?;
        }
        repl::complete_from(src.core.as_mut().unwrap(), &src.model, &mut r2).map_err(tag)?;
        r2.check(CMP_HAS | CMP_CONTIG, 400, "second hop after completion").map_err(tag)?;
        ctx.count("second_hop_sessions");
        Ok(())
    }
}

fn resolve_seek(p: &Plan, w: &Model, target: u64) -> Plan {
    let mut p = p.clone();
    if let Some(s) = p.seek {
        if s >= u64::MAX - 2 {
            let bl: u64 = w.sizes[..target as usize].iter().sum();
            p.seek = Some(match u64::MAX - s {
                0 => 0,
                1 => bl / 2,
                _ => bl,
            });
        }
    }
    p
}

fn report(ctx: &mut Ctx, s: &Session, f: Fail) {
    ctx.violate(f.sig, f.detail, json!({"kind":"session","script": s.script}));
}

fn exhaustive_chunk(ctx: &mut Ctx, id: u64) {
    let combo = id / 16;
    let first = (id % 16) as usize;
    // combos: (n,u) with 1<=u<=n<=5
    let mut combos = vec![];
    for n in 1..=5u64 {
        for u in 1..=n {
            combos.push((n, u));
        }
    }
    let (n, u) = combos[combo as usize];
    let alpha = alphabet(n);
    if first >= alpha.len() {
        return;
    }
    let l = ctx.tier.pick(3usize, 4usize);
    let idxs: Vec<u8> = (0..alpha.len() as u8).collect();
    let mut seqs: Vec<Vec<u8>> = vec![];
    gen::for_each_sequence(&[first as u8], l, &idxs, |s| seqs.push(s.to_vec()));
    for s in seqs {
        let mut sess = match Session::new(50 + n, CacheMode::None) {
            Ok(s) => s,
            Err(f) => {
                ctx.violate(f.sig, f.detail, json!({"kind":"case"}));
                return;
            }
        };
        let wops: Vec<Op> = (0..n).map(|i| Op::Append(1 + i as u32, [5u32, 0, 9, 3, 7][i as usize])).collect();
        let r = (|| -> Result<(), Fail> {
            sess.writer_ops(&wops)?;
            for (k, sym) in s.iter().enumerate() {
                let mut plan = alpha[*sym as usize].clone();
                let rl = sess.pair.replica.model.length();
                if rl < n {
                    plan.upgrade = Some(if k == 0 { u } else { n - rl });
                }
                let target = plan.upgrade.map(|x| rl + x).unwrap_or(rl);
                // W2/W3: index inside the target; seek+block/hash inside upgrade excluded
                if let Some(b) = plan.block {
                    if b >= target {
                        continue;
                    }
                }
                if let Some(h) = plan.hash {
                    let (lo, hi) = refimpl::ft_span(h);
                    let (lo, hi) = (lo / 2, hi / 2);
                    if hi >= target || (lo < rl && hi >= rl) {
                        continue;
                    }
                }
                if target == 0 {
                    continue;
                }
                let plan = resolve_seek(&plan, &sess.pair.writer.model, target);
                sess.request(ctx, &plan)?;
            }
            sess.finish(ctx)
        })();
        ctx.count("exhaustive_sessions");
        let h = crate::rng::fnv(serde_json::to_string(&sess.script).unwrap().as_bytes());
        ctx.eval(if sess.accepted > 0 { Some(h) } else { None });
        if let Err(f) = r {
            report(ctx, &sess, f);
            if ctx.violations.len() > 8 {
                return;
            }
        }
    }
    ctx.sample(|| json!({"kind":"exhaustive-chunk","blocks":n,"first_upgrade":u,"first_request":alpha[first].to_json(),"sequence_length":l}));
}

fn directed(ctx: &mut Ctx, di: u64, r: &mut Rng) {
    let mut sess = match Session::new(300 + di, ops::CACHE_MODES[((di + ctx.seed) % 4) as usize]) {
        Ok(s) => s,
        Err(f) => {
            ctx.violate(f.sig, f.detail, json!({"kind":"case"}));
            return;
        }
    };
    let app = |t: u32, n: u32| -> Vec<Op> { (0..n).map(|i| Op::Append(t + i, 3 + (t + i) % 5)).collect() };
    let res = (|| -> Result<(), Fail> {
        match di {
            0 => {
                // block inside the upgraded range under a non-first root, on an empty replica
                sess.writer_ops(&app(1, 7))?;
                sess.request(ctx, &Plan { block: Some(5), upgrade: Some(7), ..Default::default() })?;
                sess.reopen_replica(ctx)?;
                sess.request(ctx, &Plan { block: Some(6), ..Default::default() })?;
            }
            1 => {
                // upgrade-only then block-only entries replayed at reopen
                sess.writer_ops(&app(1, 6))?;
                sess.request(ctx, &Plan { upgrade: Some(6), ..Default::default() })?;
                sess.reopen_replica(ctx)?;
                sess.request(ctx, &Plan { upgrade: None, block: Some(2), ..Default::default() })?;
                sess.request(ctx, &Plan { block: Some(4), ..Default::default() })?;
                sess.reopen_replica(ctx)?;
                sess.request(ctx, &Plan { block: Some(0), ..Default::default() })?;
                sess.reopen_replica(ctx)?;
            }
            2 => {
                // cleared block requested
                sess.writer_ops(&app(1, 5))?;
                sess.writer_ops(&[Op::Clear(1, 3)])?;
                sess.request(ctx, &Plan { block: Some(1), upgrade: Some(5), ..Default::default() })?;
                sess.request(ctx, &Plan { upgrade: Some(5), ..Default::default() })?;
                sess.request(ctx, &Plan { block: Some(2), ..Default::default() })?;
                sess.request(ctx, &Plan { block: Some(3), ..Default::default() })?;
            }
            3 => {
                // partial upgrades in several growth rounds, block in upgrade under non-first root
                sess.writer_ops(&app(1, 3))?;
                sess.request(ctx, &Plan { upgrade: Some(2), block: Some(1), ..Default::default() })?;
                sess.writer_ops(&app(10, 4))?;
                sess.request(ctx, &Plan { upgrade: Some(2), block: Some(4), ..Default::default() })?;
                sess.reopen_replica(ctx)?;
                sess.writer_ops(&app(20, 6))?;
                sess.request(ctx, &Plan { upgrade: Some(6), block: Some(12), ..Default::default() })?;
                sess.request(ctx, &Plan { block: Some(9), ..Default::default() })?;
            }
            4 => {
                // seeks: alone, with upgrade, with a block below upgrade.start
                sess.writer_ops(&app(1, 9))?;
                sess.request(ctx, &Plan { upgrade: Some(4), seek: Some(7), ..Default::default() })?;
                sess.request(ctx, &Plan { seek: Some(0), ..Default::default() })?;
                sess.request(ctx, &Plan { block: Some(3), ..Default::default() })?;
                let off: u64 = sess.pair.writer.model.sizes[..3].iter().sum();
                sess.request(ctx, &Plan { block: Some(3), seek: Some(off), ..Default::default() })?;
                sess.writer_ops(&app(30, 3))?;
                sess.request(ctx, &Plan { upgrade: Some(3), block: Some(2), seek: Some(sess.pair.writer.model.sizes[..2].iter().sum()), ..Default::default() })?;
            }
            7 => {
                // the writer's clear path: clears overlapping across a bitfield word boundary in
                // every flush phase, writer reopen, then blocks around the cleared range are
                // requested - cleared ones yield no proof, the others their bytes
                sess.writer_ops(&[Op::Batch((0..48).map(|i| (i + 1, 2)).collect())])?;
                for _ in 0..4 {
                    sess.writer_ops(&[Op::Clear(32, 40)])?;
                }
                for _ in 0..4 {
                    sess.writer_ops(&[Op::Clear(28, 40)])?;
                }
                sess.script.push(json!("reopen-writer"));
                sess.pair.writer.reopen()?;
                sess.request(ctx, &Plan { upgrade: Some(48), ..Default::default() })?;
                for b in [27u64, 28, 31, 32, 39, 40, 47] {
                    sess.request(ctx, &Plan { block: Some(b), ..Default::default() })?;
                }
                ctx.count("writer_clear_path_session");
            }
            5 | 6 => {
                // a large log crossing bitfield pages, blocks fetched pages apart
                let n: u32 = if di == 5 { 33_000 } else { 70_000 };
                sess.writer_ops(&[Op::Batch((0..n).map(|i| (i + 1, 1)).collect())])?;
                sess.pair.replica.model = sess.pair.replica.model.clone();
                let res = sess.pair.round(&Plan { upgrade: Some(n as u64), block: Some(n as u64 - 2), ..Default::default() });
                res.map_err(|mut f| { f.sig = format!("{}|big", f.sig); f })?;
                sess.pair.replica.check(CMP_HAS, 64, "big log")?;
                if di == 5 {
                    // a clear that starts exactly on the second bitfield page
                    sess.writer_ops(&[Op::Clear(32768, 32772)])?;
                }
                for b in [1u64, 32766, 32772, 0u64, 8191, 8192, 32767, 32768, n as u64 - 1, 40_000 % n as u64] {
                    sess.pair.round(&Plan { block: Some(b), ..Default::default() }).map_err(|mut f| { f.sig = format!("{}|big", f.sig); f })?;
                    ctx.count("proofs");
                }
                sess.pair.replica.check(CMP_HAS, 64, "big log after far-apart blocks")?;
                sess.pair.replica.reopen()?;
                sess.pair.replica.check(CMP_HAS, 64, "big log after reopen")?;
                sess.accepted += 8;
                ctx.count("big_log_session");
                ctx.eval(Some(0xB16 + di));
                return Ok(()); // no full completion for the big log
            }
            _ => {
                // random growth rounds with every request carrying an upgrade when behind
                let mut tag = 1u32;
                for _ in 0..3 {
                    let k = 1 + r.below(9) as u32;
                    sess.writer_ops(&app(tag, k))?;
                    tag += k;
                    for _ in 0..4 {
                        let rl = sess.pair.replica.model.length();
                        let wl = sess.pair.writer.model.length();
                        let p = repl::random_plan(r, rl, wl, &sess.pair.writer.model, &sess.pair.replica.model);
                        sess.request(ctx, &p)?;
                    }
                    sess.reopen_replica(ctx)?;
                }
            }
        }
        sess.finish(ctx)
    })();
    let h = crate::rng::fnv(serde_json::to_string(&sess.script).unwrap().as_bytes());
    if di != 5 && di != 6 {
        ctx.eval(if sess.accepted > 0 { Some(h) } else { None });
    }
    if let Err(f) = res {
        report(ctx, &sess, f);
    }
}

pub fn random_session(ctx: &mut Ctx, r: &mut Rng, cache: CacheMode) -> (Session, Result<(), Fail>) {
    let key_seed = r.next_u64();
    let mut sess = match Session::new(key_seed, cache) {
        Ok(s) => s,
        Err(f) => panic!("session setup failed: {} {}", f.sig, f.detail),
    };
    let rounds = 1 + r.below(4);
    let big = r.chance(1, 12);
    let mut tag = 1u32;
    let early_reopen = r.chance(1, 4);
    let res = (|| -> Result<(), Fail> {
        if early_reopen {
            // the replica is created, closed and reopened before it has seen any proof
            sess.reopen_replica(ctx)?;
            ctx.count("replica_reopened_while_empty");
        }
        for _ in 0..rounds {
            // writer grows
            let mut wops = vec![];
            let n = if big { 20 + r.below(80) } else { 1 + r.below(8) };
            for _ in 0..n {
                if r.chance(1, 5) {
                    let k = r.below(5) as u32;
                    wops.push(Op::Batch((0..k).map(|i| (tag + i, gen::rand_block_len(r, 300))).collect()));
                    tag += k;
                } else {
                    wops.push(Op::Append(tag, gen::rand_block_len(r, 300)));
                    tag += 1;
                }
            }
            sess.writer_ops(&wops)?;
            if r.chance(1, 3) {
                let wl = sess.pair.writer.model.length();
                if wl > 0 {
                    let s = r.below(wl);
                    let e = s + 1 + r.below(3);
                    sess.writer_ops(&[Op::Clear(s, e)])?;
                }
            }
            let nreq = 1 + r.below(if big { 30 } else { 8 });
            for _ in 0..nreq {
                let rl = sess.pair.replica.model.length();
                let wl = sess.pair.writer.model.length();
                let p = repl::random_plan(r, rl, wl, &sess.pair.writer.model, &sess.pair.replica.model);
                if r.chance(1, 8) {
                    // the writer closes and reopens (possibly with unflushed entries) before serving
                    sess.script.push(json!("reopen-writer"));
                    sess.pair.writer.reopen()?;
                    ctx.count("writer_reopens");
                }
                sess.request(ctx, &p)?;
                if r.chance(1, 6) {
                    sess.reopen_replica(ctx)?;
                }
            }
        }
        sess.finish(ctx)
    })();
    (sess, res)
}

fn run_case(ctx: &mut Ctx, id: u64) {
    run_case_inner(ctx, id);
    ctx.add("block+seek_elsewhere_in_proven_subtree", repl::SEEKS_ELSEWHERE_IN_SUBTREE.swap(0, std::sync::atomic::Ordering::Relaxed));
}

fn run_case_inner(ctx: &mut Ctx, id: u64) {
    let t = ctx.tier;
    let mut r = ctx.case_rng(id);
    let ne = exh_cases(t);
    if id < ne {
        exhaustive_chunk(ctx, id);
        return;
    }
    if id - ne < DIRECTED {
        directed(ctx, id - ne, &mut r);
        return;
    }
    // what the replica accepts must not depend on its node cache: a quarter of the sessions each
    // run with the cache off, default, tiny and volatile (writer and replica alike)
    let cache = ops::CACHE_MODES[(id % 4) as usize];
    let (sess, res) = random_session(ctx, &mut r, cache);
    ctx.count("random_sessions");
    ctx.count(&format!("session_cache:{cache:?}"));
    let h = crate::rng::fnv(serde_json::to_string(&sess.script).unwrap().as_bytes());
    ctx.eval(if sess.accepted > 0 { Some(h) } else { None });
    if let Err(f) = res {
        report(ctx, &sess, f);
    } else if id % 2003 == 0 {
        ctx.sample(|| json!({"kind":"random-session","script": sess.script.iter().take(12).collect::<Vec<_>>()}));
    }
}
