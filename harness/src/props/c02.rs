//! C02 — a crash between any two storage operations recovers to before-or-after.
//! C07 — a torn final write is tolerated like a clean crash (same machinery, tear mode).

use crate::crash::{self, CrashOpts, Mode};
use crate::framework::{Ctx, Spec, Tier};
use crate::gen;
use crate::model::CMP_ALL;
use crate::ops::{self, Op};
use crate::rng::Rng;
use serde_json::json;

pub static SPEC: Spec = Spec {
    id: "C02",
    level: "fault_enumeration",
    fixed_cases: |t| n_chunks(t) + directed().len() as u64 + crate::props::c02r::N_REPLICA_FIXED,
    random_secs: |t| t.pick(15, 240),
    random_cap: |t| t.pick(100_000, 3_000_000),
    run_case: |ctx, id| run_case(ctx, id, Mode::Crash),
    required: &[
        "crash_points",
        // generic: crash points inside every kind of call (the individual windows between two
        // particular storage operations are implementation detail and reported as win:* counters)
        "crash_in:build",
        "crash_in:append",
        "crash_in:append_batch",
        "crash_in:clear",
        "crash_in:make_read_only",
        "crash_in:proof",
        "crash_in:end",
        "crash_first_op_after_reopen_with_unflushed",
        "replica_crash_points",
    ],
    rule: "a case = one recorded history (journal of mutating storage operations attributed to public calls); for EVERY prefix of the journal the four files are rebuilt, reopened with open(true), observed (info, get of every index) and compared with the model before and after the interrupted call, then a fixed continuation (append, clear, batch, reopen, append, reopen with full observation after each) must match the model; histories: bounded-exhaustive over the 8-symbol alphabet incl. reopen (L=4 quick / 5 thorough), directed reopen-heavy and make_read_only histories, replica histories (honest proof applications), seeded-random <= 40 ops; evaluations = crash points; distinct = (history, prefix) pairs",
    assumptions: &[
        "each storage operation is atomic and persisted in issue order (the property's own fault model); torn writes are C07",
        "contiguous_length and has() exactness are decided by C08; C02 compares length, byte length, writability and get() of every index",
    ],
    exhaustive_note: "per history every journal prefix is enumerated (exhaustive over crash points); histories exhaustive for L<=4 (quick) / L<=5 (thorough) over the alphabet",
    hang_secs: 360,
};

pub static SPEC_C07: Spec = Spec {
    id: "C07",
    level: "fault_enumeration",
    fixed_cases: |t| n_chunks07(t) + directed_for(true).len() as u64 + crate::props::c02r::N_REPLICA_FIXED,
    random_secs: |t| t.pick(15, 240),
    random_cap: |t| t.pick(100_000, 3_000_000),
    run_case: |ctx, id| run_case(ctx, id, Mode::Tear { random_cuts: if ctx.tier == Tier::Quick { 8 } else { 64 } }),
    required: &[
        "crash_points",
        "torn:header-slot0:other-valid",
        "torn:header-slot1:other-valid",
        "torn:header-slot0:other-absent",
        "torn:entry:in-crc",
        "torn:entry:in-len",
        "torn:entry:after-leader",
        "torn:entry:in-payload",
        "torn:bitfield",
        "torn:tree",
        "torn:data",
        "replica_crash_points",
    ],
    rule: "as C02, but for every crash point whose next operation is a write a byte prefix of that write is applied before reopening: every proper prefix for writes <= 64 bytes, otherwise framing boundaries (1,3,4,5,7,8,9,... bytes, len-1, 512-byte sector edges, 40-byte node edges for tree writes) plus seeded-random cuts; evaluations = (crash point, cut) pairs",
    assumptions: &[
        "a torn write leaves exactly a byte prefix of the intended write (no garbage beyond it), earlier operations are intact",
    ],
    exhaustive_note: "all proper prefixes for writes <= 64 bytes; boundary + random cuts for longer writes",
    hang_secs: 360,
};

fn exh_len(t: Tier) -> usize {
    t.pick(4, 5)
}
fn n_chunks(t: Tier) -> u64 {
    let _ = t;
    64
}
fn n_chunks07(t: Tier) -> u64 {
    let _ = t;
    64
}

fn directed() -> Vec<Vec<Op>> {
    directed_for(false)
}

fn directed_for(tear: bool) -> Vec<Vec<Op>> {
    let mut v = vec![];
    let a = |t: u32| Op::Append(t, 5 + t % 3);
    // reopen with 1..3 unflushed entries, then each kind of next op (crash points after reopen)
    for unfl in 1..=3u32 {
        for next in 0..3 {
            let mut ops = vec![a(1)];
            for j in 0..unfl {
                ops.push(a(10 + j));
            }
            ops.push(Op::Reopen);
            match next {
                0 => ops.push(a(50)),
                1 => ops.push(Op::Clear(0, 1)),
                _ => ops.push(Op::Batch(vec![(60, 0), (61, 4)])),
            }
            ops.push(a(70));
            ops.push(Op::Reopen);
            ops.push(a(80));
            v.push(ops);
        }
    }
    // clear entries unflushed at reopen
    v.push(vec![a(1), a(2), a(3), Op::Clear(1, 2), Op::Reopen, a(4), Op::Clear(0, 1), Op::Reopen, a(5)]);
    // make_read_only in each flush phase
    for unfl in 0..=3u32 {
        let mut ops = vec![a(1)];
        for j in 0..unfl {
            ops.push(a(10 + j));
        }
        ops.push(Op::MakeReadOnly);
        ops.push(Op::Reopen);
        v.push(ops);
    }
    // second header slot current when the next flush happens (5 ops => two flushes)
    v.push(vec![a(1), a(2), a(3), a(4), a(5), a(6), Op::Reopen, a(7), a(8), a(9), a(10), a(11), Op::MakeReadOnly]);
    // an entry above 64 KiB forces a flush by size outside the every-fourth-operation rhythm
    // (crash mode only: with ~2000 tree writes the tear mode would multiply it by dozens of cuts)
    if !tear {
        v.push(vec![a(1), a(2), Op::Batch((0..900).map(|i| (1000 + i, 2)).collect()), a(3), Op::Reopen, a(4)]);
    }
    // clears that overlap across 32-bit word boundaries of the bitfield (more than 32 blocks), in
    // every phase of the flush rhythm: a later clear whose last word has nothing left to clear,
    // a clear ending exactly on a word boundary, a clear of everything
    for pad in 0..4u32 {
        let mut ops = vec![Op::Batch((0..40).map(|i| (200 + i, 2)).collect())];
        for j in 0..pad {
            ops.push(a(300 + j));
        }
        ops.push(Op::Clear(32, 40));
        ops.push(Op::Clear(0, 40));
        ops.push(Op::Reopen);
        ops.push(a(400));
        v.push(ops);
    }
    v.push(vec![Op::Batch((0..70).map(|i| (500 + i, 1)).collect()), Op::Clear(30, 64), Op::Clear(20, 64), Op::Clear(0, 33), Op::Reopen, Op::Clear(0, 70), Op::Reopen, a(600)]);
    // big single entry forcing a flush by size
    v.push(vec![a(1), Op::Batch((0..40).map(|i| (100 + i, 3)).collect()), a(2), Op::Reopen, a(3)]);
    v
}

pub fn crash_history(ctx: &mut Ctx, ops: &[Op], key_seed: u64, mode: Mode, r: &mut Rng) {
    let rec = match crash::record_history(key_seed, ops) {
        Ok(r) => r,
        Err((i, f)) => {
            // the uncrashed run itself misbehaved: that is C01's business, but it makes this
            // history unusable here. Report it (it is a violation of "later operations satisfy C01").
            ctx.violate(
                format!("uncrashed-run:{}", f.sig),
                format!("at op #{i}: {}", f.detail),
                json!({"kind":"history","key_seed":key_seed,"ops":ops::ops_to_json(ops)}),
            );
            return;
        }
    };
    ctx.count("histories");
    let o = CrashOpts {
        mode,
        mask: CMP_ALL,
        get_cap: 64,
        only: None,
        only_kind: None,
        prop: ctx.prop,
        continuation: true,
    };
    crash::enumerate(ctx, &rec, &o, r);
}

fn run_case(ctx: &mut Ctx, id: u64, mode: Mode) {
    let t = ctx.tier;
    let is07 = matches!(mode, Mode::Tear { .. });
    let nch = if is07 { n_chunks07(t) } else { n_chunks(t) };
    let alphabet: Vec<u8> = (0..gen::ALPHABET as u8).collect();
    let mut r = ctx.case_rng(id);
    if id < nch {
        let prefix = gen::prefix_of_chunk(id, 2, &alphabet);
        let l = if is07 { t.pick(3, 4) } else { exh_len(t) };
        let mut seqs: Vec<Vec<u8>> = vec![];
        gen::for_each_sequence(&prefix, l, &alphabet, |s| seqs.push(s.to_vec()));
        for s in seqs {
            if let Some(ops) = gen::concretize(&s) {
                ctx.count("exhaustive_histories");
                crash_history(ctx, &ops, 7, mode, &mut r);
                if ctx.violations.len() > 8 {
                    return;
                }
            }
        }
        return;
    }
    let d = directed_for(is07);
    let di = (id - nch) as usize;
    if di < d.len() {
        ctx.count("directed_histories");
        crash_history(ctx, &d[di], 21 + di as u64, mode, &mut r);
        return;
    }
    let ri = di - d.len();
    if (ri as u64) < crate::props::c02r::N_REPLICA_FIXED {
        crate::props::c02r::replica_case_mode(ctx, ri as u64, &mut r, mode);
        return;
    }
    // seeded random
    let cfg = gen::RandCfg {
        max_ops: if is07 { 14 } else { 40 },
        reopen_pct: 18,
        clear_pct: 18,
        read_pct: 4,
        max_block: if r.chance(1, 8) { 5000 } else { 80 },
        big_batch: if r.chance(1, 10) { 60 } else { 0 },
        far_clear: false,
    };
    let mut ops = gen::random_history(&mut r, &cfg);
    if r.chance(1, 5) {
        ops.push(Op::MakeReadOnly);
        ops.push(Op::Reopen);
    }
    ctx.count("random_histories");
    let ks = r.next_u64();
    if r.chance(1, 4) {
        crate::props::c02r::replica_case_mode(ctx, 1000 + id, &mut r, mode);
    } else {
        crash_history(ctx, &ops, ks, mode, &mut r);
    }
    if id % 997 == 0 {
        ctx.sample(|| json!({"kind":"random","ops":ops::ops_to_json(&ops[..ops.len().min(20)])}));
    }
}
