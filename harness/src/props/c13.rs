//! C13 — replication events announce exactly the state changes that happened.

use crate::exec;
use crate::framework::{Ctx, Spec};
use crate::gen;
use crate::mutate;
use crate::ops::{self, fail, CacheMode, Fail, Op, Sut};
use crate::repl::{self, apply_proof, create_proof, Plan, Replica};
use crate::rng::Rng;
use crate::world::World;
use async_broadcast::{Receiver, TryRecvError};
use hypercore::replication::events::Event;
use hypercore::{Hypercore, Proof};
use serde_json::{json, Value};
use std::collections::BTreeSet;

pub static SPEC: Spec = Spec {
    id: "C13",
    level: "exploration",
    fixed_cases: |_| 64 + 7,
    random_secs: |t| t.pick(12, 180),
    random_cap: |t| t.pick(200_000, 5_000_000),
    run_case,
    required: &[
        "ev:append:[U,H]",
        "ev:empty-batch:[]",
        "ev:get-missing:[G]",
        "ev:get-held:[]",
        "ev:get-beyond-length:[G]",
        "ev:get-cleared:[G]",
        "ev:append-not-writable:[]",
        "ev:proof-accepted:upgrade+block",
        "ev:proof-accepted:upgrade-only",
        "ev:proof-accepted:block-only",
        "ev:proof-accepted:no-upgrade-no-block",
        "ev:proof-refused:[]",
        "ev:append-failed-by-storage-fault:[]",
        "ev:clear",
        "subscribers_3",
        "late_subscriber",
        "union_checks",
        "repeated_reads_with_pending_events",
        "repeated_reads_with_events_kept_alive",
        "ev:create_proof-served-or-failed:[]",
        "ev:get-after-failed-append:[G]",
        "ev:proof-accepted-by-writable-core",
        "ev:shared:append:[U,H]",
        "ev:shared:get-missing:[G]",
        "ev:shared:proof-accepted",
        "ev:shared:replica-get-missing:[G]",
    ],
    rule: "a case = one history on a writer (appends, empty batches, clears, reads of held / missing / cleared / out-of-range indices, refused appends on a read-only core, appends failing through an injected storage fault) or one replica session (honest, stale and must-refuse altered proofs) with 1-3 subscribers attached at random times; after EVERY public call every subscriber is drained (try_recv until empty) and the exact event list is compared with the expected list for that call (append => [DataUpgrade, Have{old length, batch size, false}]; accepted proof => DataUpgrade iff it carried an upgrade, then Have{index,1,false} iff it carried a block; get of an index not held => [Get{index}]; everything else => [] ; clear => [] or only drop announcements inside the cleared range); all live subscribers must see identical lists; at the end the union of announced Have(drop=false) ranges of each subscriber equals the set of blocks that became available while it was attached; one case in six runs a writer history and a replica session through the SharedCore wrapper (two owners of one shared core, trait methods), same expectations; bounded-exhaustive over the 8-symbol alphabet (L=4) with a read after every op, plus random; distinct = history/session hash",
    assumptions: &["subscribers are always drained, so fewer than 32 events are pending (the property's bound)"],
    exhaustive_note: "all symbol sequences of length 4 over the 8-symbol alphabet, each op followed by reads of a held, a missing and an out-of-range index",
    hang_secs: 120,
};

#[derive(Clone, Debug, PartialEq)]
enum Ev {
    Get(u64),
    Upgrade,
    Have(u64, u64, bool),
}

fn conv(e: Event) -> Ev {
    match e {
        Event::Get(g) => Ev::Get(g.index),
        Event::DataUpgrade(_) => Ev::Upgrade,
        Event::Have(h) => Ev::Have(h.start, h.length, h.drop),
    }
}

struct Sub {
    rx: Receiver<Event>,
    announced: BTreeSet<u64>,
    expected_avail: BTreeSet<u64>,
}

fn drain(rx: &mut Receiver<Event>) -> Result<Vec<Ev>, String> {
    let mut v = vec![];
    loop {
        match rx.try_recv() {
            Ok(e) => v.push(conv(e)),
            Err(TryRecvError::Empty) => return Ok(v),
            Err(TryRecvError::Closed) => return Ok(v),
            Err(TryRecvError::Overflowed(n)) => return Err(format!("overflowed by {n}")),
        }
        if v.len() > 100 {
            return Err("more than 100 events for one call".into());
        }
    }
}

struct Mon {
    subs: Vec<Sub>,
}

impl Mon {
    fn attach(&mut self, core: &Hypercore) {
        self.subs.push(Sub {
            rx: core.event_subscribe(),
            announced: BTreeSet::new(),
            expected_avail: BTreeSet::new(),
        });
    }
    /// after a call: compare every subscriber's drained list with `expected` (or the clear rule)
    fn after(&mut self, what: &str, expected: &Expect, newly_available: &[u64]) -> Result<(), Fail> {
        let mut first: Option<Vec<Ev>> = None;
        for (si, s) in self.subs.iter_mut().enumerate() {
            let got = drain(&mut s.rx).map_err(|e| fail("event-queue", e))?;
            match expected {
                Expect::Exactly(exp) => {
                    if &got != exp {
                        let class = if got.len() > exp.len() { "extra-events" } else if got.len() < exp.len() { "missing-events" } else { "wrong-events" };
                        return Err(fail(format!("{class}:{what}"), format!("subscriber {si} after {what}: got {got:?} expected {exp:?}")));
                    }
                }
                Expect::AnyOf(lists) => {
                    if !lists.iter().any(|l| l == &got) {
                        return Err(fail(format!("wrong-events:{what}"), format!("subscriber {si} after {what}: got {got:?} expected one of {lists:?}")));
                    }
                }
                Expect::ClearOf(cs, ce) => {
                    for e in &got {
                        match e {
                            Ev::Have(st, ln, true) if *st >= *cs && st + ln <= *ce => {}
                            other => return Err(fail(format!("clear-announced:{what}"), format!("subscriber {si}: clear({cs},{ce}) emitted {other:?}"))),
                        }
                    }
                }
            }
            for e in &got {
                if let Ev::Have(st, ln, false) = e {
                    for i in *st..st + ln {
                        s.announced.insert(i);
                    }
                }
            }
            for i in newly_available {
                s.expected_avail.insert(*i);
            }
            if let Some(f) = &first {
                if f != &got {
                    return Err(fail(format!("subscribers-disagree:{what}"), format!("subscriber 0 saw {f:?}, subscriber {si} saw {got:?}")));
                }
            } else {
                first = Some(got);
            }
        }
        Ok(())
    }
    fn union_check(&self, ctx: &mut Ctx) -> Result<(), Fail> {
        for (si, s) in self.subs.iter().enumerate() {
            ctx.count("union_checks");
            if s.announced != s.expected_avail {
                let missing: Vec<&u64> = s.expected_avail.difference(&s.announced).take(5).collect();
                let extra: Vec<&u64> = s.announced.difference(&s.expected_avail).take(5).collect();
                return Err(fail("union-mismatch", format!("subscriber {si}: became available but never announced {missing:?}; announced but never became available {extra:?}")));
            }
        }
        Ok(())
    }
}

enum Expect {
    Exactly(Vec<Ev>),
    ClearOf(u64, u64),
    /// one of several exact lists
    AnyOf(Vec<Vec<Ev>>),
}

/// Writer history with event monitor. `fault`: fail the k-th storage operation from now during
/// the last append.
fn writer_history(ctx: &mut Ctx, ops: &[Op], r: &mut Rng, reads_after_each: bool, fault_last: bool) -> Result<(), (usize, Fail)> {
    let world = World::new();
    let mut sut = Sut::create(r.next_u64(), world.clone(), CacheMode::None).map_err(|f| (0, f))?;
    let mut mon = Mon { subs: vec![] };
    let nsubs = 1 + r.below(3);
    mon.attach(sut.core());
    let mut attach_at: Vec<usize> = (1..nsubs).map(|_| r.below(ops.len() as u64 + 1) as usize).collect();
    attach_at.sort();
    if nsubs == 3 {
        ctx.count("subscribers_3");
    }
    for (i, op) in ops.iter().enumerate() {
        while attach_at.first().map(|a| *a <= i).unwrap_or(false) {
            attach_at.remove(0);
            mon.attach(sut.core());
            if i > 0 {
                ctx.count("late_subscriber");
            }
        }
        let mut todo: Vec<Op> = vec![op.clone()];
        if reads_after_each {
            let l = sut.model.length();
            todo.push(Op::Get(0));
            todo.push(Op::Get(l.saturating_sub(1)));
            todo.push(Op::Get(l + 3));
            todo.push(Op::Has(0));
            todo.push(Op::Info);
        }
        for (j, o) in todo.iter().enumerate() {
            let old_len = sut.model.length();
            let was_writable = sut.model.writable;
            if matches!(o, Op::Reopen) {
                // old receivers die with the core; union check for them, then re-attach
                mon.union_check(ctx).map_err(|f| (i, f))?;
                sut.step(o).map_err(|f| (i, fail(format!("scenario:{}", f.sig), f.detail)))?;
                let n = mon.subs.len();
                mon.subs.clear();
                for _ in 0..n {
                    mon.attach(sut.core());
                }
                continue;
            }
            let is_last_append = fault_last && i == ops.len() - 1 && j == 0 && matches!(o, Op::Append(..) | Op::Batch(..));
            if is_last_append {
                let mut w = world.lock().unwrap();
                let k = w.op_counter + r.below(8);
                w.fail_at = Some(k);
            }
            let res = sut.step(o);
            let fired = world.lock().unwrap().failed.is_some();
            if is_last_append && fired {
                // the call failed through a storage fault: it must not have announced anything
                if res.is_ok() {
                    return Err((i, fail("fault-swallowed", "append returned Ok despite storage fault")));
                }
                ctx.count("ev:append-failed-by-storage-fault:[]");
                mon.after("append-failed-by-storage-fault", &Expect::Exactly(vec![]), &[]).map_err(|f| (i, f))?;
                // The failed call either did not happen or - when the fault hit the flush after the
                // commit point - is applied (C10: before-or-after). Whichever it is, the live
                // instance must be consistent with the length it reports: a read at or beyond that
                // length is a read of a block that is not held - Ok(None) and exactly one get event.
                // (An append applied by a call that returned Err was never announced; that is the
                // "continued use after a failed call" observation of DESIGN.md section 6, counted
                // here and not judged.)
                let live_len = sut.core().info().length;
                if live_len != old_len {
                    ctx.count("info:failed-append-applied-on-live-instance-unannounced");
                }
                for ix in [live_len, live_len + 1 + r.below(3)] {
                    match exec::call(sut.core().get(ix)) {
                        Ok(Ok(None)) => {}
                        other => {
                            return Err((i, fail("read-after-failed-append", format!("get({ix}) after an append that failed (old length {old_len}, length reported afterwards {live_len}): {:?}", other.map(|x| x.map(|y| y.map(|z| z.len())).map_err(|e| e.to_string()))))));
                        }
                    }
                    ctx.count("ev:get-after-failed-append:[G]");
                    mon.after("get-after-failed-append", &Expect::Exactly(vec![Ev::Get(ix)]), &[]).map_err(|f| (i, f))?;
                }
                return Ok(());
            }
            res.map_err(|f| (i, fail(format!("scenario:{}", f.sig), f.detail)))?;
            let (what, exp, newly): (&str, Expect, Vec<u64>) = match o {
                Op::Append(..) | Op::Batch(..) => {
                    let n = sut.model.length() - old_len;
                    if !was_writable {
                        ("append-not-writable", Expect::Exactly(vec![]), vec![])
                    } else if n == 0 {
                        ("empty-batch", Expect::Exactly(vec![]), vec![])
                    } else {
                        ("append", Expect::Exactly(vec![Ev::Upgrade, Ev::Have(old_len, n, false)]), (old_len..old_len + n).collect())
                    }
                }
                Op::Clear(s, e) => ("clear", Expect::ClearOf(*s, *e), vec![]),
                Op::Get(ix) => {
                    if sut.model.get(*ix).is_some() {
                        ("get-held", Expect::Exactly(vec![]), vec![])
                    } else if *ix >= sut.model.length() {
                        ("get-beyond-length", Expect::Exactly(vec![Ev::Get(*ix)]), vec![])
                    } else {
                        ("get-cleared", Expect::Exactly(vec![Ev::Get(*ix)]), vec![])
                    }
                }
                Op::Has(_) => ("has", Expect::Exactly(vec![]), vec![]),
                Op::Info => ("info", Expect::Exactly(vec![]), vec![]),
                // the property is silent on make_read_only: anything but an availability
                // announcement is tolerated (handled like a clear of nothing)
                Op::MakeReadOnly => ("make_read_only", Expect::ClearOf(0, 0), vec![]),
                Op::Reopen => unreachable!(),
            };
            let label = match (&exp, what) {
                (Expect::Exactly(v), w) if w == "append" => {
                    let _ = v;
                    "ev:append:[U,H]".to_string()
                }
                (Expect::Exactly(v), w) if v.is_empty() => format!("ev:{w}:[]"),
                (Expect::Exactly(_), w) => {
                    if w == "get-cleared" || w == "get-beyond-length" {
                        ctx.count("ev:get-missing:[G]");
                    }
                    format!("ev:{w}:[G]")
                }
                (Expect::AnyOf(..), w) => format!("ev:{w}"),
                (Expect::ClearOf(..), w) if w == "make_read_only" => "ev:make_read_only".to_string(),
                (Expect::ClearOf(..), _) => "ev:clear".to_string(),
            };
            ctx.count(&label);
            mon.after(what, &exp, &newly).map_err(|f| (i, f))?;
        }
    }
    mon.union_check(ctx).map_err(|f| (ops.len(), f))?;
    Ok(())
}

fn replica_session(ctx: &mut Ctx, r: &mut Rng, script: &mut Vec<Value>) -> Result<(), Fail> {
    let mut w = Sut::create(r.next_u64(), World::new(), CacheMode::None)?;
    let mut rep = Replica::create(&w.key, CacheMode::None)?;
    let mut mon = Mon { subs: vec![] };
    let nsubs = 1 + r.below(3);
    for _ in 0..nsubs {
        mon.attach(rep.core());
    }
    // the serving side has a subscriber too: serving a proof changes nothing, so it announces
    // nothing - except the get event of the read of a block the server does not hold
    let mut wmon = Mon { subs: vec![] };
    wmon.attach(w.core());
    if nsubs == 3 {
        ctx.count("subscribers_3");
    }
    let mut tag = 1u32;
    let mut stale: Vec<Proof> = vec![];
    for _ in 0..(1 + r.below(3)) {
        let mut wops = vec![];
        for _ in 0..(1 + r.below(7)) {
            wops.push(Op::Append(tag, gen::rand_block_len(r, 60)));
            tag += 1;
        }
        script.push(json!({"w": ops::ops_to_json(&wops)}));
        repl::apply_writer_ops(&mut w, &wops)?;
        wmon.subs.iter_mut().for_each(|s| {
            let _ = drain(&mut s.rx);
        });
        for _ in 0..(1 + r.below(6)) {
            let rl = rep.model.length();
            let wl = w.model.length();
            let plan: Plan = repl::random_plan(r, rl, wl, &w.model, &rep.model);
            if plan == Plan::default() {
                continue;
            }
            script.push(json!({"r": plan.to_json()}));
            let req = rep.make_request(&plan)?;
            // missing_nodes is a read-only query: no events
            mon.after("missing_nodes", &Expect::Exactly(vec![]), &[])?;
            wmon.subs.iter_mut().for_each(|s| {
                let _ = drain(&mut s.rx);
            });
            let made = create_proof(w.core(), &req);
            match &made {
                Ok(Ok(Some(_))) | Ok(Err(_)) => {
                    ctx.count("ev:create_proof-served-or-failed:[]");
                    wmon.after("create_proof", &Expect::Exactly(vec![]), &[])?;
                }
                Ok(Ok(None)) => {
                    let bi = req.block.as_ref().map(|b| b.index).unwrap_or(u64::MAX);
                    ctx.count("ev:create_proof-none");
                    wmon.after("create_proof-none", &Expect::AnyOf(vec![vec![], vec![Ev::Get(bi)]]), &[])?;
                }
                Err(_) => {}
            }
            let p = match made {
                Ok(Ok(Some(p))) => p,
                Ok(Ok(None)) => continue,
                other => return Err(fail("scenario:create_proof", format!("{:?}", other.map(|x| x.map_err(|e| e.to_string()))))),
            };
            // hostile traffic first: must-refuse alterations and stale proofs
            let mut alts = mutate::alterations(&p, r, 1);
            r.shuffle(&mut alts);
            for alt in alts.iter().filter(|a| a.must_refuse()).take(4) {
                if let Some(q) = mutate::apply(&p, alt) {
                    match apply_proof(rep.core(), &q) {
                        Ok(Ok(true)) => {
                            // C04's business; resynchronise and stop this session
                            return Err(fail("scenario:altered-accepted", alt.kind()));
                        }
                        Ok(_) => {
                            ctx.count("ev:proof-refused:[]");
                            mon.after("proof-refused", &Expect::Exactly(vec![]), &[])?;
                        }
                        Err(pn) => return Err(fail("scenario:panic", pn)),
                    }
                }
            }
            if let Some(q) = stale.last().cloned() {
                if q != p {
                    let before: Vec<bool> = (0..rep.model.length()).map(|i| rep.model.get(i).is_some()).collect();
                    match apply_proof(rep.core(), &q) {
                        Ok(Ok(true)) => {
                            // a genuine earlier block proof applied again: announced per what it carried
                            let mut exp = vec![];
                            if q.upgrade.is_some() {
                                exp.push(Ev::Upgrade);
                            }
                            let mut newly = vec![];
                            if let Some(b) = &q.block {
                                exp.push(Ev::Have(b.index, 1, false));
                                if !before.get(b.index as usize).copied().unwrap_or(false) {
                                    newly.push(b.index);
                                }
                                // re-announcing a held block adds nothing to the union
                                newly.push(b.index);
                            }
                            let wm = w.model.clone();
                            if q.upgrade.is_some() {
                                // an earlier genuine upgrade accepted again: the replica keeps the
                                // length it has (the writer's at that time or later)
                                ctx.count("ev:proof-accepted:stale-with-upgrade");
                            }
                            if let Some(b) = &q.block {
                                if (b.index as usize) < rep.model.blocks.len() {
                                    rep.model.blocks[b.index as usize] = Some(b.value.clone());
                                }
                            }
                            let _ = wm;
                            ctx.count("ev:proof-accepted:stale");
                            mon.after("stale-proof-accepted", &Expect::Exactly(exp), &newly)?;
                        }
                        Ok(_) => {
                            ctx.count("ev:proof-refused:[]");
                            mon.after("stale-proof-refused", &Expect::Exactly(vec![]), &[])?;
                        }
                        Err(pn) => return Err(fail("scenario:panic", pn)),
                    }
                }
            }
            // the honest proof
            let had = p.block.as_ref().map(|b| rep.model.get(b.index).is_some()).unwrap_or(false);
            match apply_proof(rep.core(), &p) {
                Ok(Ok(true)) => {}
                other => return Err(fail("scenario:honest-refused", format!("{:?}", other.map(|x| x.map_err(|e| e.to_string()))))),
            }
            let wm = w.model.clone();
            rep.model_accept(&p, &wm);
            let mut exp = vec![];
            if p.upgrade.is_some() {
                exp.push(Ev::Upgrade);
            }
            let mut newly = vec![];
            if let Some(b) = &p.block {
                exp.push(Ev::Have(b.index, 1, false));
                newly.push(b.index);
            }
            let _ = had;
            ctx.count(match (p.upgrade.is_some(), p.block.is_some()) {
                (true, true) => "ev:proof-accepted:upgrade+block",
                (true, false) => "ev:proof-accepted:upgrade-only",
                (false, true) => "ev:proof-accepted:block-only",
                (false, false) => "ev:proof-accepted:no-upgrade-no-block",
            });
            mon.after("proof-accepted", &Expect::Exactly(exp), &newly)?;
            // later this proof is offered again (stale): block-only, upgrade-only, both
            stale.push(p.clone());
            // reads on the replica
            let l = rep.model.length();
            for ix in [0, l / 2, l.saturating_sub(1), l + 1] {
                let held = rep.model.get(ix).is_some();
                match exec::call(rep.core().get(ix)) {
                    Ok(Ok(v)) => {
                        if v.is_some() != held {
                            return Err(fail("scenario:replica-get", format!("get({ix})")));
                        }
                    }
                    other => return Err(fail("scenario:replica-get", format!("{:?}", other.map(|x| x.map_err(|e| e.to_string()))))),
                }
                let exp = if held { vec![] } else { vec![Ev::Get(ix)] };
                ctx.count(if held { "ev:get-held:[]" } else { "ev:get-missing:[G]" });
                mon.after(if held { "get-held" } else { "get-missing" }, &Expect::Exactly(exp), &[])?;
            }
            // append on the replica is refused and silent
            match exec::call(rep.core().append(b"x")) {
                Ok(Err(hypercore::HypercoreError::NotWritable)) => {}
                other => return Err(fail("scenario:replica-append", format!("{:?}", other.map(|x| x.map(|_| ()).map_err(|e| e.to_string())))))
            }
            ctx.count("ev:append-not-writable:[]");
            mon.after("append-not-writable", &Expect::Exactly(vec![]), &[])?;
        }
    }
    mon.union_check(ctx)?;
    Ok(())
}

/// Reads of indices that are not held, repeated, with the events left pending (fewer than 32)
/// or kept alive by the subscriber: every read emits its own get event, in order.
fn repeated_reads(ctx: &mut Ctx, r: &mut Rng) -> Result<(), Fail> {
    let mut sut = Sut::create(r.next_u64(), World::new(), CacheMode::None)?;
    let n = 2 + r.below(6) as u32;
    repl::apply_writer_ops(&mut sut, &(0..n).map(|i| Op::Append(i + 1, 3 + i)).collect::<Vec<_>>())?;
    let c = r.below(n as u64);
    repl::apply_writer_ops(&mut sut, &[Op::Clear(c, c + 1)])?;
    let nsubs = 1 + r.below(2) as usize;
    let mut rxs: Vec<Receiver<Event>> = (0..nsubs).map(|_| sut.core().event_subscribe()).collect();
    let keep_alive = r.chance(1, 2);
    let defer = !keep_alive || r.chance(1, 2);
    let mut kept: Vec<Event> = vec![];
    let mut expected: Vec<Ev> = vec![];
    let mut got: Vec<Vec<Ev>> = vec![vec![]; nsubs];
    let l = n as u64;
    let missing = [c, l, l + 5, c];
    let reads = 4 + r.below(20);
    for k in 0..reads {
        let ix = if r.chance(1, 2) { c } else if r.chance(1, 4) { (c + 1) % l } else { *r.pick(&missing) };
        let held = sut.model.get(ix).is_some();
        match exec::call(sut.core().get(ix)) {
            Ok(Ok(v)) if v.is_some() == held => {}
            other => return Err(fail("scenario:get", format!("get({ix}): {:?}", other.map(|x| x.map(|y| y.map(|z| z.len())).map_err(|e| e.to_string()))))),
        }
        if !held {
            expected.push(Ev::Get(ix));
        }
        if !defer || k + 1 == reads {
            for (si, rx) in rxs.iter_mut().enumerate() {
                loop {
                    match rx.try_recv() {
                        Ok(e) => {
                            got[si].push(match &e {
                                Event::Get(g) => Ev::Get(g.index),
                                Event::DataUpgrade(_) => Ev::Upgrade,
                                Event::Have(h) => Ev::Have(h.start, h.length, h.drop),
                            });
                            if keep_alive {
                                kept.push(e);
                            }
                        }
                        Err(TryRecvError::Overflowed(n)) => return Err(fail("event-queue", format!("overflowed by {n} with {} reads pending", expected.len()))),
                        Err(_) => break,
                    }
                }
            }
        }
    }
    ctx.count(if defer { "repeated_reads_with_pending_events" } else { "repeated_reads_with_events_kept_alive" });
    ctx.add("ev:get-missing:[G]", expected.len() as u64);
    for (si, g) in got.iter().enumerate() {
        if g != &expected {
            let class = if g.len() < expected.len() { "missing-events" } else if g.len() > expected.len() { "extra-events" } else { "wrong-events" };
            return Err(fail(
                format!("{class}:repeated-reads:{}", if defer { "pending" } else { "kept-alive" }),
                format!("subscriber {si}: {} reads of indices not held gave {} get events: got {g:?} expected {expected:?}", expected.len(), g.len()),
            ));
        }
    }
    drop(kept);
    Ok(())
}

/// The same announcements must come out when the core is used through the `SharedCore` wrapper
/// (trait methods of `replication::shared_core`): appends, batches, reads of held / missing /
/// out-of-range indices on a shared writer, then accepted proofs and reads on a shared replica.
fn shared_history(ctx: &mut Ctx, r: &mut Rng, script: &mut Vec<Value>) -> Result<(), Fail> {
    use hypercore::replication::{CoreInfo, CoreMethods, ReplicationMethods, SharedCore};
    let run = |what: &str, got: Result<Vec<Ev>, String>, exp: &[Ev], si: usize| -> Result<(), Fail> {
        let got = got.map_err(|e| fail("event-queue", e))?;
        if got != exp {
            let class = if got.len() > exp.len() { "extra-events" } else if got.len() < exp.len() { "missing-events" } else { "wrong-events" };
            return Err(fail(format!("{class}:shared:{what}"), format!("subscriber {si} after {what} through SharedCore: got {got:?} expected {exp:?}")));
        }
        Ok(())
    };
    // ---- shared writer
    let key = ops::key_from_seed(r.next_u64());
    let world = World::new();
    let core = match ops::build_core(&world, Some(ops::keypair(&key, true)), false, CacheMode::None) {
        Ok(Ok(c)) => c,
        other => return Err(fail("scenario:build", format!("{:?}", other.map(|x| x.map(|_| ()).map_err(|e| e.to_string()))))),
    };
    let shared = SharedCore::from_hypercore(core);
    let other_owner = shared.clone();
    let nsubs = 1 + r.below(2) as usize;
    let mut rxs: Vec<Receiver<Event>> = (0..nsubs).map(|_| exec::block_on(shared.event_subscribe())).collect();
    let mut blocks: Vec<Option<Vec<u8>>> = vec![];
    let mut tag = 1u32;
    let steps = 4 + r.below(14);
    for _ in 0..steps {
        let len = blocks.len() as u64;
        // calls alternate between the two owners of the same shared core
        let c = if r.chance(1, 2) { &shared } else { &other_owner };
        let (what, exp): (String, Vec<Ev>) = match r.below(8) {
            0 | 1 => {
                let b = crate::rng::block_bytes(tag, gen::rand_block_len(r, 40) as usize);
                tag += 1;
                script.push(json!({"append": b.len()}));
                match exec::call(c.append(&b)) {
                    Ok(Ok(o)) if o.length == len + 1 => {}
                    other => return Err(fail("scenario:append", format!("{:?}", other.map(|x| x.map(|o| o.length).map_err(|e| e.to_string()))))),
                }
                blocks.push(Some(b));
                ctx.count("ev:shared:append:[U,H]");
                ("append".into(), vec![Ev::Upgrade, Ev::Have(len, 1, false)])
            }
            2 => {
                let k = r.below(4);
                let batch: Vec<Vec<u8>> = (0..k).map(|i| crate::rng::block_bytes(tag + i as u32, gen::rand_block_len(r, 40) as usize)).collect();
                tag += k as u32;
                script.push(json!({"batch": k}));
                match exec::call(c.append_batch(batch.clone())) {
                    Ok(Ok(o)) if o.length == len + k => {}
                    other => return Err(fail("scenario:append_batch", format!("{:?}", other.map(|x| x.map(|o| o.length).map_err(|e| e.to_string()))))),
                }
                blocks.extend(batch.into_iter().map(Some));
                if k == 0 {
                    ("empty-batch".into(), vec![])
                } else {
                    ("append".into(), vec![Ev::Upgrade, Ev::Have(len, k, false)])
                }
            }
            3 | 4 | 5 => {
                let ix = if r.chance(1, 3) { len + r.below(3) } else { r.below(len.max(1)) };
                script.push(json!({"get": ix}));
                let held = blocks.get(ix as usize).map(|b| b.is_some()).unwrap_or(false);
                match exec::call(c.get(ix)) {
                    Ok(Ok(v)) if v == blocks.get(ix as usize).cloned().flatten() => {}
                    other => return Err(fail("scenario:get", format!("get({ix}): {:?}", other.map(|x| x.map(|y| y.map(|z| z.len())).map_err(|e| e.to_string()))))),
                }
                if held {
                    ("get-held".into(), vec![])
                } else {
                    ctx.count("ev:shared:get-missing:[G]");
                    ("get-missing".into(), vec![Ev::Get(ix)])
                }
            }
            6 => {
                let ix = r.below(len + 2);
                let _ = exec::call(c.has(ix));
                let _ = exec::call(c.info());
                ("has+info".into(), vec![])
            }
            _ => {
                if len == 0 {
                    continue;
                }
                let s0 = r.below(len);
                let e0 = (s0 + 1 + r.below(2)).min(len);
                script.push(json!({"clear": [s0, e0]}));
                let res = exec::call(async {
                    let mut g = c.0.lock().await;
                    g.clear(s0, e0).await
                });
                if !matches!(res, Ok(Ok(()))) {
                    return Err(fail("scenario:clear", format!("{:?}", res.map(|x| x.map_err(|e| e.to_string())))));
                }
                for i in s0..e0 {
                    blocks[i as usize] = None;
                }
                // clear: only drop announcements inside the range are tolerated
                for (si, rx) in rxs.iter_mut().enumerate() {
                    for e in drain(rx).map_err(|e| fail("event-queue", e))? {
                        match e {
                            Ev::Have(st, ln, true) if st >= s0 && st + ln <= e0 => {}
                            other => return Err(fail("clear-announced:shared", format!("subscriber {si}: clear({s0},{e0}) emitted {other:?}"))),
                        }
                    }
                }
                continue;
            }
        };
        for (si, rx) in rxs.iter_mut().enumerate() {
            run(&what, drain(rx), &exp, si)?;
        }
    }
    // ---- shared replica fed from the shared writer
    let len = blocks.len() as u64;
    if len == 0 {
        return Ok(());
    }
    let rep = Replica::create(&key, CacheMode::None)?;
    let rshared = SharedCore::from_hypercore(rep.core.unwrap());
    let mut rrx: Vec<Receiver<Event>> = (0..nsubs).map(|_| exec::block_on(rshared.event_subscribe())).collect();
    let mut rlen = 0u64;
    let mut held: BTreeSet<u64> = BTreeSet::new();
    for _ in 0..(2 + r.below(6)) {
        let ix = r.below(len);
        if blocks[ix as usize].is_none() {
            continue;
        }
        let upgrade = if rlen < len { Some(hypercore::RequestUpgrade { start: rlen, length: len - rlen }) } else { None };
        let nodes = match exec::call(rshared.missing_nodes(ix)) {
            Ok(Ok(n)) => n,
            other => return Err(fail("scenario:missing_nodes", format!("{:?}", other.map(|x| x.map_err(|e| e.to_string()))))),
        };
        script.push(json!({"fetch": ix, "upgrade": upgrade.is_some()}));
        let proof = match exec::call(shared.create_proof(Some(hypercore::RequestBlock { index: ix, nodes }), None, None, upgrade.clone())) {
            Ok(Ok(Some(p))) => p,
            other => return Err(fail("scenario:create_proof", format!("{:?}", other.map(|x| x.map(|p| p.is_some()).map_err(|e| e.to_string()))))),
        };
        // serving through the shared writer announces nothing
        for (si, rx) in rxs.iter_mut().enumerate() {
            run("create_proof-served", drain(rx), &[], si)?;
        }
        match exec::call(rshared.verify_and_apply_proof(&proof)) {
            Ok(Ok(true)) => {}
            other => return Err(fail("scenario:verify", format!("{:?}", other.map(|x| x.map_err(|e| e.to_string()))))),
        }
        let mut exp = vec![];
        if upgrade.is_some() {
            exp.push(Ev::Upgrade);
            rlen = len;
        }
        exp.push(Ev::Have(ix, 1, false));
        held.insert(ix);
        ctx.count("ev:shared:proof-accepted");
        for (si, rx) in rrx.iter_mut().enumerate() {
            run("proof-accepted", drain(rx), &exp, si)?;
        }
        let q = r.below(len + 2);
        script.push(json!({"replica-get": q}));
        match exec::call(rshared.get(q)) {
            Ok(Ok(v)) if v.is_some() == held.contains(&q) => {}
            other => return Err(fail("scenario:get", format!("replica get({q}): {:?}", other.map(|x| x.map(|y| y.map(|z| z.len())).map_err(|e| e.to_string()))))),
        }
        let exp = if held.contains(&q) { vec![] } else { vec![Ev::Get(q)] };
        if !exp.is_empty() {
            ctx.count("ev:shared:replica-get-missing:[G]");
        }
        for (si, rx) in rrx.iter_mut().enumerate() {
            run("replica-get", drain(rx), &exp, si)?;
        }
    }
    Ok(())
}

/// A *writable* core that accepts a proof announces it like any other core: the writer clears a
/// block it had appended and gets it back from a replica that fetched it earlier.
fn writer_refetch(ctx: &mut Ctx, r: &mut Rng) -> Result<(), Fail> {
    let mut w = Sut::create(r.next_u64(), World::new(), CacheMode::None)?;
    let n = 2 + r.below(9) as u32;
    repl::apply_writer_ops(&mut w, &(0..n).map(|i| Op::Append(i + 1, 2 + i % 5)).collect::<Vec<_>>())?;
    let mut rep = Replica::create(&w.key, CacheMode::None)?;
    let k = r.below(n as u64);
    repl::round(&mut w, &mut rep, &Plan { upgrade: Some(n as u64), block: Some(k), ..Default::default() }).map_err(|f| fail(format!("scenario:{}", f.sig), f.detail))?;
    repl::apply_writer_ops(&mut w, &[Op::Clear(k, k + 1)])?;
    let mut mon = Mon { subs: vec![] };
    for _ in 0..(1 + r.below(2)) {
        mon.attach(w.core());
    }
    // the read of the cleared block on the writer: one get event
    match exec::call(w.core().get(k)) {
        Ok(Ok(None)) => {}
        other => return Err(fail("scenario:get", format!("{:?}", other.map(|x| x.map(|y| y.map(|z| z.len())).map_err(|e| e.to_string()))))),
    }
    mon.after("get-cleared", &Expect::Exactly(vec![Ev::Get(k)]), &[])?;
    let nodes = match exec::call(w.core().missing_nodes(k)) {
        Ok(Ok(x)) => x,
        other => return Err(fail("scenario:missing_nodes", format!("{:?}", other.map(|x| x.map_err(|e| e.to_string()))))),
    };
    let req = repl::Request { block: Some(hypercore::RequestBlock { index: k, nodes }), hash: None, seek: None, upgrade: None };
    let proof = match create_proof(rep.core(), &req) {
        Ok(Ok(Some(p))) => p,
        other => return Err(fail("scenario:create_proof", format!("{:?}", other.map(|x| x.map(|p| p.is_some()).map_err(|e| e.to_string()))))),
    };
    match apply_proof(w.core(), &proof) {
        Ok(Ok(true)) => {}
        other => return Err(fail("scenario:verify", format!("{:?}", other.map(|x| x.map_err(|e| e.to_string()))))),
    }
    ctx.count("ev:proof-accepted-by-writable-core");
    mon.after("proof-accepted-by-writable-core", &Expect::Exactly(vec![Ev::Have(k, 1, false)]), &[k])?;
    match exec::call(w.core().get(k)) {
        Ok(Ok(Some(_))) => {}
        other => return Err(fail("scenario:get-after-refetch", format!("{:?}", other.map(|x| x.map(|y| y.map(|z| z.len())).map_err(|e| e.to_string()))))),
    }
    mon.after("get-held", &Expect::Exactly(vec![]), &[])?;
    mon.union_check(ctx)
}

fn report_hist(ctx: &mut Ctx, i: usize, f: Fail, ops: &[Op], kind: &str) {
    if f.sig.starts_with("scenario:") || f.sig.starts_with("build:") {
        ctx.count("scenario_unusable");
        ctx.notes.push(format!("scenario unusable: {} {}", f.sig, f.detail.chars().take(120).collect::<String>()));
    } else {
        ctx.violate(f.sig, format!("op #{i}: {}", f.detail), json!({"kind":kind,"ops":ops::ops_to_json(ops)}));
    }
}

fn run_case(ctx: &mut Ctx, id: u64) {
    let mut r = ctx.case_rng(id);
    let alphabet: Vec<u8> = (0..gen::ALPHABET as u8).collect();
    if id < 64 {
        let prefix = gen::prefix_of_chunk(id, 2, &alphabet);
        let mut seqs: Vec<Vec<u8>> = vec![];
        gen::for_each_sequence(&prefix, 4, &alphabet, |s| seqs.push(s.to_vec()));
        for s in seqs {
            if let Some(ops) = gen::concretize(&s) {
                ctx.count("exhaustive_histories");
                ctx.eval(Some(ops::ops_hash(&ops)));
                if let Err((i, f)) = writer_history(ctx, &ops, &mut r, true, false) {
                    report_hist(ctx, i, f, &ops, "history");
                    if ctx.violations.len() > 6 {
                        return;
                    }
                }
            }
        }
        return;
    }
    let which = if id < 71 { id - 64 } else if id % 6 == 0 { 7 } else if id % 6 == 1 { 8 } else { r.below(7) };
    match which {
        8 => {
            ctx.eval(Some(r.0 ^ 0x8));
            match writer_refetch(ctx, &mut r) {
                Ok(()) => {}
                Err(f) if f.sig.starts_with("scenario:") || f.sig.starts_with("writer:") || f.sig.starts_with("build:") || f.sig.starts_with("replica-build") => {
                    ctx.count("scenario_unusable");
                    ctx.notes.push(format!("scenario unusable: {} {}", f.sig, f.detail.chars().take(120).collect::<String>()));
                }
                Err(f) => ctx.violate(f.sig, f.detail, json!({"kind":"writer-refetch"})),
            }
        }
        7 => {
            let mut script = vec![];
            ctx.count("shared_core_histories");
            let res = shared_history(ctx, &mut r, &mut script);
            ctx.eval(Some(crate::rng::fnv(serde_json::to_string(&script).unwrap().as_bytes()) ^ 0x5A));
            match res {
                Ok(()) => {}
                Err(f) if f.sig.starts_with("scenario:") || f.sig.starts_with("replica-build") => {
                    ctx.count("scenario_unusable");
                    ctx.notes.push(format!("scenario unusable: {} {}", f.sig, f.detail.chars().take(120).collect::<String>()));
                }
                Err(f) => ctx.violate(f.sig, f.detail, json!({"kind":"shared-core-history","script":script})),
            }
        }
        6 => {
            ctx.eval(Some(r.0));
            match repeated_reads(ctx, &mut r) {
                Ok(()) => {}
                Err(f) if f.sig.starts_with("scenario:") || f.sig.starts_with("writer:") => ctx.count("scenario_unusable"),
                Err(f) => ctx.violate(f.sig, f.detail, json!({"kind":"repeated-reads"})),
            }
        }
        0 | 1 => {
            // writer history with read-only tail and refused appends
            let cfg = gen::RandCfg { max_ops: 30, reopen_pct: 8, clear_pct: 15, read_pct: 30, max_block: 100, big_batch: 0, far_clear: false };
            let mut ops = gen::random_history(&mut r, &cfg);
            if which == 1 {
                ops.push(Op::MakeReadOnly);
                ops.push(Op::Append(9_000_001, 4));
                ops.push(Op::Batch(vec![(9_000_002, 1)]));
                ops.push(Op::Get(0));
            }
            ctx.count("writer_histories");
            ctx.eval(Some(ops::ops_hash(&ops)));
            if let Err((i, f)) = writer_history(ctx, &ops, &mut r, false, false) {
                report_hist(ctx, i, f, &ops, "history");
            } else if id % 503 == 0 {
                ctx.sample(|| json!({"kind":"writer-history","ops":ops::ops_to_json(&ops[..ops.len().min(15)])}));
            }
        }
        2 => {
            // an append that fails through an injected storage fault announces nothing
            let cfg = gen::RandCfg { max_ops: 8, reopen_pct: 5, clear_pct: 10, read_pct: 10, max_block: 50, big_batch: 0, far_clear: false };
            let mut ops = gen::random_history(&mut r, &cfg);
            ops.push(Op::Append(8_000_001, 7));
            ctx.count("fault_histories");
            ctx.eval(Some(ops::ops_hash(&ops) ^ 0xF));
            if let Err((i, f)) = writer_history(ctx, &ops, &mut r, false, true) {
                report_hist(ctx, i, f, &ops, "history-with-fault");
            }
        }
        _ => {
            let mut script = vec![];
            ctx.count("replica_sessions");
            let res = replica_session(ctx, &mut r, &mut script);
            ctx.eval(Some(crate::rng::fnv(serde_json::to_string(&script).unwrap().as_bytes())));
            match res {
                Ok(()) => {
                    if id % 307 == 0 {
                        ctx.sample(|| json!({"kind":"replica-session","script": script.iter().take(10).collect::<Vec<_>>()}));
                    }
                }
                Err(f) if f.sig.starts_with("scenario:") || f.sig.starts_with("writer:") || f.sig.starts_with("missing_nodes") || f.sig.starts_with("replica-") => {
                    ctx.count("scenario_unusable");
                    ctx.notes.push(format!("scenario unusable: {} {}", f.sig, f.detail.chars().take(120).collect::<String>()));
                }
                Err(f) => ctx.violate(f.sig, f.detail, json!({"kind":"session","script":script})),
            }
        }
    }
}
