//! C08 — has() and contiguous_length are exact for large, sparse and reopened cores.

use crate::crash::{self, CrashOpts, Mode};
use crate::framework::{Ctx, Spec, Tier};
use crate::gen;
use crate::model::*;
use crate::ops::{self, CacheMode, Fail, Op, Sut};
use crate::repl::{self, Plan, Replica};
use crate::rng::Rng;
use crate::world::{snapshot, World};
use serde_json::json;

pub static SPEC: Spec = Spec {
    id: "C08",
    level: "exploration",
    fixed_cases: |t| 64 + DIRECTED + t.pick(0, 6),
    random_secs: |t| t.pick(14, 200),
    random_cap: |t| t.pick(100_000, 3_000_000),
    run_case,
    required: &[
        "reopen_bitfield_pages_1",
        "reopen_bitfield_pages_2",
        "reopen_bitfield_pages_3",
        "replica_blocks_in_two_pages_with_gap_page",
        "contiguous_forward_across_page_edge",
        "contiguous_backward_by_clear",
        "replica_contiguous_jump_by_gap_fill",
        "has_probed_beyond_length_in_following_pages",
        "crash_points",
        "big_core_observations",
        "replica_completed_a_full_page",
        "live_instance_invariant_checks",
        "overwrite_over_two_page_core",
    ],
    rule: "a case = one history scaled so that block indices cross 8192 / 32768 / 65536 (98304 in thorough): batch appends of 8000-40000 one-byte blocks, clears straddling page edges, reopen after steps, replicas fetching blocks pages apart and out of order, sampled crash recovery (64 journal prefixes per big history); after EVERY step has(i) is probed for EVERY i < length+2 plus 6 offsets in each of the next 4 pages plus 2^32, 2^40-1, u64::MAX and compared with the model (true exactly for stored blocks), and info().contiguous_length must equal the smallest missing index; small histories: the bounded-exhaustive L=4 set and seeded-random histories with the same oracle; distinct = history hash; evaluations = histories + crash points",
    assumptions: &["get() is sampled on big cores (64 indices incl. page edges); has() is exhaustive below length+2"],
    exhaustive_note: "has() probed on all indices below length+2 after every step; small histories exhaustive for L=4",
    hang_secs: 480,
};

const DIRECTED: u64 = 12;

fn big(n: u32, base: u32) -> Op {
    Op::Batch((0..n).map(|i| (base + i, 1)).collect())
}

/// history runner with C08's coverage counters
fn run_hist(ctx: &mut Ctx, ops: &[Op], key_seed: u64, get_cap: u64) -> Result<Sut, (usize, Fail)> {
    let world = World::new();
    let mut sut = Sut::create(key_seed, world, CacheMode::None).map_err(|f| (0, f))?;
    sut.get_cap = get_cap;
    sut.cmp_mask = CMP_ALL;
    let mut prev_contig = 0u64;
    for (i, op) in ops.iter().enumerate() {
        if matches!(op, Op::Reopen) {
            let pages = (snapshot(&sut.world)[2].len() + 4095) / 4096;
            ctx.count(&format!("reopen_bitfield_pages_{}", pages.min(4)));
        }
        sut.step(op).map_err(|mut f| {
            f.sig = format!("step:{}", f.sig);
            (i, f)
        })?;
        let o = sut.check(&format!("after op #{i} {}", op.kind())).map_err(|mut f| {
            f.sig = format!("after-{}:{}", op.kind(), f.sig);
            (i, f)
        })?;
        if o.length > 8192 {
            ctx.count("big_core_observations");
        }
        ctx.count("has_probed_beyond_length_in_following_pages");
        let c = o.contiguous;
        if c / 32768 > prev_contig / 32768 {
            ctx.count("contiguous_forward_across_page_edge");
        }
        if c < prev_contig && matches!(op, Op::Clear(..)) {
            ctx.count("contiguous_backward_by_clear");
        }
        prev_contig = c;
    }
    Ok(sut)
}

fn directed(t: Tier, di: u64) -> Vec<Op> {
    match di {
        0 => vec![big(9_000, 1), Op::Reopen, Op::Clear(8_190, 8_194), Op::Reopen, Op::Append(900_000, 3), Op::Reopen],
        1 => vec![big(33_000, 1), Op::Reopen, Op::Clear(32_766, 32_770), Op::Reopen, Op::Clear(0, 1), Op::Reopen, Op::Append(900_000, 3), Op::Reopen],
        2 => vec![big(32_768, 1), Op::Reopen, Op::Append(900_000, 1), Op::Reopen, Op::Clear(32_767, 32_769), Op::Reopen],
        3 => vec![big(40_000, 1), big(30_000, 100_000), Op::Reopen, Op::Clear(65_530, 65_540), Op::Reopen, Op::Clear(40_000, 70_000 + 40_000), Op::Reopen, Op::Append(900_001, 2), Op::Reopen],
        4 => vec![big(8_000, 1), Op::Append(700_000, 5), big(8_000, 10_000), Op::Reopen, big(17_000, 20_000), Op::Reopen, Op::Clear(16_000, 33_001), Op::Reopen, big(100, 50_000), Op::Reopen],
        5 => vec![big(20_000, 1), Op::Reopen, big(20_000, 30_000), Op::Reopen, big(30_000, 60_000), Op::Reopen, Op::Clear(1, 2), Op::Clear(32_768, 32_769), Op::Clear(65_536, 65_537), Op::Reopen, Op::Clear(0, 70_000), Op::Reopen],
        _ => {
            if t == Tier::Thorough {
                vec![big(40_000, 1), big(40_000, 100_000), big(20_000, 200_000), Op::Reopen, Op::Clear(98_300, 98_310), Op::Reopen, Op::Clear(65_535, 98_305), Op::Reopen]
            } else {
                vec![big(33_000, 1), Op::Clear(100, 33_000 + 65_536), Op::Reopen, Op::Append(1, 1), Op::Reopen]
            }
        }
    }
}

/// replicas holding blocks pages apart
fn replica_far(ctx: &mut Ctx, r: &mut Rng, variant: u64) -> Result<(), Fail> {
    let n: u32 = if variant == 0 { 70_000 } else { 33_000 + r.below(8_000) as u32 };
    let mut w = Sut::create(r.next_u64(), World::new(), CacheMode::None)?;
    repl::apply_writer_ops(&mut w, &[big(n, 1)])?;
    let mut rep = Replica::create(&w.key, CacheMode::None)?;
    let nl = n as u64;
    repl::round(&mut w, &mut rep, &Plan { upgrade: Some(nl), block: Some(nl - 1), ..Default::default() })?;
    rep.check(CMP_ALL, 32, "after upgrade + last block")?;
    // out of order, pages apart: page 2 (if any), page 0, leaving page 1 as a gap
    let mut picks: Vec<u64> = vec![5, 0, 3, 1, 2, 4];
    if nl > 65_536 {
        picks.extend([65_540u64, 65_536, 69_999]);
    } else {
        picks.extend([nl - 3, nl - 2]);
    }
    for (k, b) in picks.iter().enumerate() {
        let before = rep.model.contiguous();
        repl::round(&mut w, &mut rep, &Plan { block: Some(*b), ..Default::default() })?;
        rep.check(CMP_ALL, 32, &format!("after far block {b}"))?;
        if rep.model.contiguous() > before + 1 {
            ctx.count("replica_contiguous_jump_by_gap_fill");
        }
        ctx.count("big_core_observations");
        // variant 0 keeps the same instance alive until after the straddling clear below: a
        // reopen materialises the never-populated gap page from the (zero-filled) file
        if k % 3 == 2 && variant != 0 {
            rep.reopen()?;
            rep.check(CMP_ALL, 32, "after replica reopen")?;
            let pages = (snapshot(&rep.world)[2].len() + 4095) / 4096;
            ctx.count(&format!("replica_reopen_bitfield_pages_{}", pages.min(4)));
        }
    }
    let held_pages: std::collections::BTreeSet<u64> = (0..nl).filter(|i| rep.model.get(*i).is_some()).map(|i| i / 32768).collect();
    if held_pages.len() >= 2 && (0..*held_pages.iter().max().unwrap()).any(|p| !held_pages.contains(&p)) {
        ctx.count("replica_blocks_in_two_pages_with_gap_page");
    }
    // a clear on the replica that straddles a page it never populated
    if nl > 65_536 {
        let (cs, ce) = (4u64, 66_000u64);
        match crate::exec::call(rep.core().clear(cs, ce)) {
            Ok(Ok(())) => {
                rep.model.clear(cs, ce);
                ctx.count("replica_clear_across_unpopulated_page");
                rep.check(CMP_ALL, 32, "after replica clear across a gap page")?;
            }
            Ok(Err(e)) => {
                // a sparse replica may lack the nodes to locate the bytes: not claimed
                ctx.count("replica_clear_refused");
                ctx.notes.push(format!("replica clear refused: {e}"));
            }
            Err(p) => return Err(crate::ops::fail(format!("replica-clear:panic:{}", crate::exec::panic_sig(&p)), p)),
        }
    }
    rep.reopen()?;
    rep.check(CMP_ALL, 32, "final reopen")?;
    Ok(())
}

/// contiguous length moving forward across a page edge on a replica (fills [0, 32768+4))
fn replica_contiguous_across_edge(ctx: &mut Ctx, r: &mut Rng) -> Result<(), Fail> {
    let n: u32 = 32_780;
    let mut w = Sut::create(r.next_u64(), World::new(), CacheMode::None)?;
    repl::apply_writer_ops(&mut w, &[big(n, 1)])?;
    let mut rep = Replica::create(&w.key, CacheMode::None)?;
    repl::round(&mut w, &mut rep, &Plan { upgrade: Some(n as u64), ..Default::default() })?;
    // leave a hole at 100, fill up to 32772, then fill the hole: contiguous jumps across the edge
    for b in (0..32_772u64).filter(|b| *b != 100) {
        repl::round(&mut w, &mut rep, &Plan { block: Some(b), ..Default::default() })?;
        if b % 4096 == 0 {
            rep.check(CMP_CONTIG, 8, "filling")?;
        }
    }
    rep.check(CMP_ALL, 16, "before filling the hole")?;
    let before = rep.model.contiguous();
    repl::round(&mut w, &mut rep, &Plan { block: Some(100), ..Default::default() })?;
    rep.check(CMP_ALL, 16, "after filling the hole")?;
    if before < 32_768 && rep.model.contiguous() > 32_768 {
        ctx.count("contiguous_forward_across_page_edge");
        ctx.count("replica_contiguous_jump_by_gap_fill");
    }
    rep.reopen()?;
    rep.check(CMP_ALL, 16, "after reopen")?;
    ctx.count("big_core_observations");
    Ok(())
}

/// A replica of a log of exactly one bitfield page (32768 blocks) that receives block 0 last:
/// the update then has to walk over a page that is full up to its very end.
fn replica_full_page(ctx: &mut Ctx, r: &mut Rng) -> Result<(), Fail> {
    let n: u32 = 32_768;
    let mut w = Sut::create(r.next_u64(), World::new(), CacheMode::None)?;
    repl::apply_writer_ops(&mut w, &[big(n, 1)])?;
    let mut rep = Replica::create(&w.key, CacheMode::None)?;
    repl::round(&mut w, &mut rep, &Plan { upgrade: Some(n as u64), ..Default::default() })?;
    for b in [3u64, 2, 1] {
        repl::round(&mut w, &mut rep, &Plan { block: Some(b), ..Default::default() })?;
    }
    for b in (4..n as u64).rev() {
        repl::round(&mut w, &mut rep, &Plan { block: Some(b), ..Default::default() })?;
    }
    rep.check(CMP_ALL, 8, "before the last block")?;
    repl::round(&mut w, &mut rep, &Plan { block: Some(0), ..Default::default() })?;
    rep.check(CMP_ALL, 8, "after block 0 completed a full page")?;
    ctx.count("replica_completed_a_full_page");
    rep.reopen()?;
    rep.check(CMP_ALL, 8, "full page after reopen")?;
    Ok(())
}

fn sampled_crashes(ctx: &mut Ctx, ops: &[Op], key_seed: u64, r: &mut Rng, n: usize) {
    let rec = match crash::record_history(key_seed, ops) {
        Ok(r) => r,
        Err((i, f)) => {
            ctx.count("scenario_unusable");
            ctx.notes.push(format!("record failed at op {i}: {}", f.sig));
            return;
        }
    };
    let m = rec.journal.len();
    let mut only: Vec<usize> = (0..n).map(|_| r.below(m as u64 + 1) as usize).collect();
    // always include the boundaries of the last few operations (header write / truncate windows)
    for k in m.saturating_sub(6)..=m {
        only.push(k);
    }
    only.sort();
    only.dedup();
    let o = CrashOpts {
        mode: Mode::Crash,
        mask: CMP_ALL,
        get_cap: 24,
        only: Some(only),
        only_kind: None,
        prop: "C08",
        continuation: false,
    };
    crash::enumerate(ctx, &rec, &o, r);
}

/// "At every moment": the part of the property that does not depend on whether a call took
/// effect - has(i) is false at and beyond the reported length, and the contiguous length is the
/// smallest index not held - must also hold on the *live* instance right after a call that
/// failed through a storage fault, after the next successful call, and after a reopen.
fn invariants(core: &mut hypercore::Hypercore, when: &str) -> Result<(), Fail> {
    let info = core.info();
    let len = info.length;
    for i in (len..len + 70).chain(FAR_PROBES.iter().map(|p| len + 1 + *p)) {
        if core.has(i) {
            return Err(crate::ops::fail(format!("live:{when}:has-beyond-length"), format!("has({i}) is true although the length is {len}")));
        }
    }
    let mut first_missing = len;
    for i in 0..len {
        if !core.has(i) {
            first_missing = i;
            break;
        }
    }
    if info.contiguous_length != first_missing {
        return Err(crate::ops::fail(
            format!("live:{when}:contiguous-{}", if info.contiguous_length > first_missing { "high" } else { "low" }),
            format!("contiguous_length {} but the smallest index not held is {first_missing} (length {len})", info.contiguous_length),
        ));
    }
    Ok(())
}

fn live_after_fault(ctx: &mut Ctx, r: &mut Rng) -> Result<(), Fail> {
    let world = World::new();
    let mut sut = Sut::create(r.next_u64(), world.clone(), CacheMode::None)?;
    let cfg = gen::RandCfg { max_ops: 14, reopen_pct: 10, clear_pct: 25, read_pct: 0, max_block: 8, big_batch: 40, far_clear: true };
    let ops = gen::random_history(r, &cfg);
    let muts: Vec<usize> = ops.iter().enumerate().filter(|(_, o)| matches!(o, Op::Append(..) | Op::Batch(..) | Op::Clear(..))).map(|(i, _)| i).collect();
    if muts.is_empty() {
        return Ok(());
    }
    let target = *r.pick(&muts);
    for (i, op) in ops.iter().enumerate() {
        if i != target {
            sut.step(op).map_err(|f| crate::ops::fail(format!("scenario:{}", f.sig), f.detail))?;
            continue;
        }
        {
            let mut w = world.lock().unwrap();
            let k = w.op_counter + r.below(14);
            w.fail_at = Some(k);
        }
        let res = sut.step(op);
        let fired = world.lock().unwrap().failed.is_some();
        world.lock().unwrap().fail_at = None;
        if !fired {
            ctx.count("live_fault_not_reached");
            res.map_err(|f| crate::ops::fail(format!("scenario:{}", f.sig), f.detail))?;
            continue;
        }
        if res.is_ok() {
            // C10's business
            ctx.count("scenario_unusable");
            return Ok(());
        }
        ctx.count(&format!("live_fault_in:{}", op.kind()));
        if std::env::var("HC_DEBUG_LIVE").is_ok() {
            eprintln!("ops {:?}\n target #{target} {:?} failed at {:?} result {:?} info {:?}", ops, op, world.lock().unwrap().failed, res.as_ref().err().map(|f| f.sig.clone()), sut.core().info());
        }
        invariants(sut.core(), &format!("after-failed-{}", op.kind()))?;
        ctx.count("live_instance_invariant_checks");
        // Informational only (outside every property: C10 prescribes dropping the instance after
        // an error): the same instance keeps being used for one more append and is then reopened.
        let r2 = crate::exec::call(sut.core().append(b"after the fault"));
        if std::env::var("HC_DEBUG_LIVE").is_ok() {
            eprintln!(" next append: {:?} info {:?}", r2.as_ref().map(|x| x.as_ref().map_err(|e| e.to_string())), sut.core().info());
        }
        let acked = matches!(r2, Ok(Ok(_)));
        let live_len = sut.core().info().length;
        let live_ok = invariants(sut.core(), "x").is_ok();
        sut.core = None;
        if let Ok(Ok(mut c)) = crate::ops::build_core(&world, None, true, CacheMode::None) {
            let ok = invariants(&mut c, "x").is_ok();
            let lost = acked && c.info().length < live_len;
            ctx.count(if ok && live_ok && !lost { "info:continued_use_after_fault:consistent_after_reopen" } else { "info:continued_use_after_fault:inconsistent_or_acknowledged_append_lost_after_reopen" });
        }
        return Ok(());
    }
    Ok(())
}

/// A core created with the overwrite flag on stores that held a longer core (two bitfield pages)
/// starts with no block held anywhere, and stays exact afterwards and across a reopen.
fn overwrite_over_big_core(ctx: &mut Ctx, r: &mut Rng) -> Result<(), Fail> {
    use crate::backends::Backend;
    use crate::ops::{fail, key_from_seed, keypair};
    let b = Backend::new_world();
    let old_key = key_from_seed(r.next_u64());
    let old_len: u32 = 33_000 + r.below(8_000) as u32;
    {
        let mut old = crate::props::c14::open_core_ow(&b, Some(keypair(&old_key, true)), false, CacheMode::None, false).map_err(|e| fail("scenario:old-core", e))?;
        let blocks: Vec<Vec<u8>> = (0..old_len).map(|i| vec![(i % 251) as u8]).collect();
        let refs: Vec<&[u8]> = blocks.iter().map(|x| &x[..]).collect();
        crate::exec::call(old.append_batch(&refs[..])).map_err(|p| fail("scenario:old-core", p))?.map_err(|e| fail("scenario:old-core", e.to_string()))?;
        crate::exec::call(old.clear(5, 9)).map_err(|p| fail("scenario:old-core", p))?.map_err(|e| fail("scenario:old-core", e.to_string()))?;
    }
    let key = key_from_seed(r.next_u64());
    let mut core = crate::props::c14::open_core_ow(&b, Some(keypair(&key, true)), false, CacheMode::None, true).map_err(|e| fail("overwrite:build", e))?;
    let mut model = Model::new(true);
    let check = |core: &mut hypercore::Hypercore, model: &Model, when: &str| -> Result<(), Fail> {
        let probes: Vec<u64> = (0..70u64).chain([4, 5, 8, 9, 8191, 8192, 32_767, 32_768, 32_999, old_len as u64 - 1, old_len as u64, 65_535]).collect();
        let o = observe_at(core, &probes, &[0, 1, 2, 5]);
        let e = model.expected_like(&o);
        match diff(&o, &e, CMP_ALL) {
            Some((c, d)) => Err(fail(format!("overwrite:{when}:{c}"), d)),
            None => Ok(()),
        }
    };
    check(&mut core, &model, "fresh")?;
    for k in 0..3u32 {
        let blk = crate::rng::block_bytes(0x0800_0000 + k, 3 + k as usize);
        crate::exec::call(core.append(&blk)).map_err(|p| fail("overwrite:append:panic", p))?.map_err(|e| fail("overwrite:append", e.to_string()))?;
        model.append_batch(&[blk]);
        check(&mut core, &model, "after-append")?;
    }
    drop(core);
    let mut core = crate::props::c14::open_core_ow(&b, None, true, CacheMode::None, false).map_err(|e| fail("overwrite:reopen", e))?;
    check(&mut core, &model, "after-reopen")?;
    ctx.count("overwrite_over_two_page_core");
    Ok(())
}

fn report(ctx: &mut Ctx, i: usize, f: Fail, ops: &[Op]) {
    // compact replay for big batches
    let desc: Vec<String> = ops
        .iter()
        .map(|o| match o {
            Op::Batch(b) if b.len() > 20 => format!("batch of {} one-byte blocks", b.len()),
            x => format!("{x:?}"),
        })
        .collect();
    ctx.violate(f.sig, format!("op #{i}: {}", f.detail), json!({"kind":"history","ops":desc}));
}

fn run_case(ctx: &mut Ctx, id: u64) {
    let t = ctx.tier;
    let mut r = ctx.case_rng(id);
    let alphabet: Vec<u8> = (0..gen::ALPHABET as u8).collect();
    if id < 64 {
        let prefix = gen::prefix_of_chunk(id, 2, &alphabet);
        let mut seqs: Vec<Vec<u8>> = vec![];
        gen::for_each_sequence(&prefix, 4, &alphabet, |s| seqs.push(s.to_vec()));
        for s in seqs {
            if let Some(ops) = gen::concretize(&s) {
                ctx.count("exhaustive_histories");
                ctx.eval(Some(ops::ops_hash(&ops)));
                if let Err((i, f)) = run_hist(ctx, &ops, 7, 64) {
                    report(ctx, i, f, &ops);
                    if ctx.violations.len() > 6 {
                        return;
                    }
                }
            }
        }
        return;
    }
    let di = id - 64;
    let ndir = DIRECTED + t.pick(0, 6);
    if di < ndir {
        match di {
            0..=6 => {
                let ops = directed(t, di);
                ctx.count("directed_big_histories");
                ctx.eval(Some(0xD1 + di));
                match run_hist(ctx, &ops, 70 + di, 32) {
                    Ok(_) => sampled_crashes(ctx, &ops, 70 + di, &mut r, 64),
                    Err((i, f)) => report(ctx, i, f, &ops),
                }
            }
            7 | 8 => {
                ctx.eval(Some(0xF0 + di));
                if let Err(f) = replica_far(ctx, &mut r, di - 7) {
                    ctx.violate(f.sig, f.detail, json!({"kind":"replica-far","variant":di-7}));
                }
            }
            10 => {
                ctx.eval(Some(0xFA));
                if let Err(f) = replica_full_page(ctx, &mut r) {
                    ctx.violate(f.sig, f.detail, json!({"kind":"replica-full-page"}));
                }
            }
            11 => {
                ctx.eval(Some(0xFB));
                if let Err(f) = overwrite_over_big_core(ctx, &mut r) {
                    if f.sig.starts_with("scenario:") {
                        ctx.count("scenario_unusable");
                        ctx.notes.push(format!("overwrite scenario unusable: {}", f.detail.chars().take(120).collect::<String>()));
                    } else {
                        ctx.violate(f.sig, f.detail, json!({"kind":"overwrite-over-big-core"}));
                    }
                }
            }
            9 => {
                ctx.eval(Some(0xF9));
                if let Err(f) = replica_contiguous_across_edge(ctx, &mut r) {
                    ctx.violate(f.sig, f.detail, json!({"kind":"replica-contiguous-across-edge"}));
                }
            }
            _ => {
                // thorough extras: random big histories with crash sampling
                let cfg = gen::RandCfg { max_ops: 12, reopen_pct: 25, clear_pct: 25, read_pct: 0, max_block: 1, big_batch: 40_000, far_clear: true };
                let mut ops = vec![big(30_000 + r.below(10_000) as u32, 1)];
                ops.extend(gen::random_history(&mut r, &cfg));
                ctx.eval(Some(ops::ops_hash(&ops)));
                match run_hist(ctx, &ops, 170 + di, 32) {
                    Ok(_) => sampled_crashes(ctx, &ops, 170 + di, &mut r, 64),
                    Err((i, f)) => report(ctx, i, f, &ops),
                }
            }
        }
        return;
    }
    // seeded random: mostly medium histories with clears and reopens; some replicas; some
    // live-instance invariant checks around a call failed by a storage fault
    if r.chance(1, 5) {
        ctx.eval(Some(r.0));
        if let Err(f) = live_after_fault(ctx, &mut r) {
            if f.sig.starts_with("scenario:") {
                ctx.count("scenario_unusable");
            } else {
                ctx.violate(f.sig, f.detail, json!({"kind":"live-after-fault"}));
            }
        }
        return;
    }
    if r.chance(1, 30) {
        ctx.eval(Some(r.0));
        if let Err(f) = replica_far(ctx, &mut r, 1) {
            ctx.violate(f.sig, f.detail, json!({"kind":"replica-far","variant":1}));
        }
        return;
    }
    let cfg = gen::RandCfg {
        max_ops: 40,
        reopen_pct: 15,
        clear_pct: 25,
        read_pct: 5,
        max_block: 8,
        big_batch: if r.chance(1, 10) { 9_000 } else { 300 },
        far_clear: true,
    };
    let ops = gen::random_history(&mut r, &cfg);
    ctx.count("random_histories");
    ctx.eval(Some(ops::ops_hash(&ops)));
    let ks = r.next_u64();
    match run_hist(ctx, &ops, ks, 32) {
        Ok(_) => {
            if r.chance(1, 4) {
                sampled_crashes(ctx, &ops, ks, &mut r, 16);
            }
            if id % 701 == 0 {
                ctx.sample(|| json!({"kind":"random","ops": ops.iter().take(12).map(|o| match o { Op::Batch(b) if b.len() > 20 => format!("batch of {}", b.len()), x => format!("{x:?}") }).collect::<Vec<_>>()}));
            }
        }
        Err((i, f)) => report(ctx, i, f, &ops),
    }
}
