//! C15 — a shared core is linearizable under concurrent tasks.

use crate::exec;
use crate::framework::{Ctx, Spec, Tier};
use crate::ops::{self, build_core, keypair, CacheMode};
use crate::rng::{block_bytes, fnv, Rng};
use crate::sched::{self, Chooser, PctChooser, PrefixChooser, Task};
use crate::world::{yield_once, World};
use hypercore::replication::{CoreInfo, CoreMethods, CoreMethodsError, ReplicationMethods, ReplicationMethodsError, SharedCore};
use hypercore::{Hypercore, HypercoreError, Proof, RequestBlock, RequestUpgrade, SigningKey};
use serde_json::{json, Value};
use std::cell::RefCell;
use std::collections::{HashMap, HashSet};
use std::rc::Rc;
use std::sync::{Arc, Mutex};

pub static SPEC: Spec = Spec {
    id: "C15",
    level: "exploration",
    fixed_cases: |t| N_DFS + N_FAIR + t.pick(0, 8),
    random_secs: |t| t.pick(14, 240),
    random_cap: |t| t.pick(200_000, 5_000_000),
    run_case,
    required: &[
        "schedules",
        "dfs_exhaustive_configs",
        "parked_on_lock_while_holder_suspended_in_storage_op",
        "linearizable_by_return_order",
        "closed_form_checks",
        "config:writer",
        "config:replica",
        "calls:append",
        "calls:append_batch",
        "calls:get",
        "calls:has",
        "calls:info",
        "calls:create_proof",
        "calls:verify_and_apply_proof",
        "calls:missing_nodes",
        "calls:clear",
        "threaded_runs",
        "fair_lock_schedules",
        "fair_lock_waits",
    ],
    rule: "a case = one configuration (2-4 tasks x 1-4 calls from {append, append_batch, get, has, info, create_proof, missing_nodes, clear through the public lock} on a shared writer, or {verify_and_apply_proof of pre-generated honest proofs, get, has, info, missing_nodes} on a shared replica) run under many schedules of a deterministic single-threaded executor over a backend that suspends at every storage operation; preemption points: before every call, every storage operation, every contended lock acquisition, and - in the fair-lock schedules, where enough wall-clock time passes for async_lock's anti-starvation hand-over to engage - every lock acquisition while another task waits; each task records call and return events at the client boundary from one logical clock; oracle: the history must be linearizable against the plain (unshared) Hypercore as sequential specification - some total order respecting real-time precedence, replayed on a fresh plain core built from the same seed and prelude, must reproduce every recorded result (return order tried first, then memoised backtracking) - plus closed-form checks (append outcomes distinct and gap-free in length and byte length, every task's tagged blocks readable at the indices implied by its outcome, every get result is exactly one appended block, info pairs existed); all schedules (DFS) for the smallest configurations, seeded-random / PCT schedules otherwise; evaluations = schedules; distinct = (configuration, choice-sequence hash)",
    assumptions: &["schedules are those a cooperative executor can produce at the listed preemption points (plus OS schedules in the threaded sanitizer lanes), not all interleavings of machine instructions"],
    exhaustive_note: "all schedules (exhaustive DFS, cap not hit) for 2 tasks x <= 2 calls and 3 tasks x 1 call configurations",
    hang_secs: 240,
};

const N_DFS: u64 = 24;
/// fixed cases run in fair-lock mode: the N_DFS configurations again plus N_FAIR_EXTRA directed ones
const N_FAIR_EXTRA: u64 = 14;
const N_FAIR: u64 = N_DFS + N_FAIR_EXTRA;

#[derive(Clone, Debug, PartialEq)]
pub enum Call {
    Append(u32, u32),
    Batch(Vec<(u32, u32)>),
    Get(u64),
    Has(u64),
    Info,
    MissingNodes(u64),
    /// block index, upgrade (start,length)
    CreateProof(Option<u64>, Option<(u64, u64)>),
    Apply(usize),
    Clear(u64, u64),
}

impl Call {
    fn kind(&self) -> &'static str {
        match self {
            Call::Append(..) => "append",
            Call::Batch(..) => "append_batch",
            Call::Get(..) => "get",
            Call::Has(..) => "has",
            Call::Info => "info",
            Call::MissingNodes(..) => "missing_nodes",
            Call::CreateProof(..) => "create_proof",
            Call::Apply(..) => "verify_and_apply_proof",
            Call::Clear(..) => "clear",
        }
    }
}

fn herr(e: &HypercoreError) -> String {
    format!("Err({})", ops::err_sig(e))
}
fn cm_err(e: &CoreMethodsError) -> String {
    match e {
        CoreMethodsError::HypercoreError(h) => herr(h),
    }
}
fn rm_err(e: &ReplicationMethodsError) -> String {
    match e {
        ReplicationMethodsError::HypercoreError(h) => herr(h),
        ReplicationMethodsError::CoreMethodsError(c) => cm_err(c),
    }
}
fn fmt_get(v: &Option<Vec<u8>>) -> String {
    match v {
        None => "Ok(None)".into(),
        Some(b) => format!("Ok(Some({},{:x}))", b.len(), fnv(b)),
    }
}
fn fmt_proof(p: &Option<Proof>) -> String {
    match p {
        None => "Ok(None)".into(),
        Some(p) => format!("Ok(Some(#{:x}))", fnv(format!("{p:?}").as_bytes())),
    }
}
fn blocks_of(c: &Call) -> Vec<Vec<u8>> {
    match c {
        Call::Append(t, l) => vec![block_bytes(*t, *l as usize)],
        Call::Batch(b) => b.iter().map(|(t, l)| block_bytes(*t, *l as usize)).collect(),
        _ => vec![],
    }
}

async fn exec_shared(core: &SharedCore, c: &Call, proofs: &[Proof]) -> String {
    match c {
        Call::Append(..) => match core.append(&blocks_of(c)[0]).await {
            Ok(o) => format!("Ok({},{})", o.length, o.byte_length),
            Err(e) => cm_err(&e),
        },
        Call::Batch(..) => match core.append_batch(blocks_of(c)).await {
            Ok(o) => format!("Ok({},{})", o.length, o.byte_length),
            Err(e) => cm_err(&e),
        },
        Call::Get(i) => match core.get(*i).await {
            Ok(v) => fmt_get(&v),
            Err(e) => cm_err(&e),
        },
        Call::Has(i) => format!("{}", core.has(*i).await),
        Call::Info => {
            let i = core.info().await;
            format!("({},{},{},{})", i.length, i.byte_length, i.contiguous_length, i.writeable)
        }
        Call::MissingNodes(i) => match core.missing_nodes(*i).await {
            Ok(n) => format!("Ok({n})"),
            Err(e) => rm_err(&e),
        },
        Call::CreateProof(b, u) => {
            let block = b.map(|i| RequestBlock { index: i, nodes: 0 });
            let up = u.map(|(s, l)| RequestUpgrade { start: s, length: l });
            match core.create_proof(block, None, None, up).await {
                Ok(p) => fmt_proof(&p),
                Err(e) => rm_err(&e),
            }
        }
        Call::Apply(k) => match core.verify_and_apply_proof(&proofs[*k]).await {
            Ok(b) => format!("Ok({b})"),
            Err(e) => rm_err(&e),
        },
        Call::Clear(s, e) => {
            // clear is not part of the SharedCore traits: through the public lock
            let mut g = core.0.lock().await;
            match g.clear(*s, *e).await {
                Ok(()) => "Ok".into(),
                Err(e) => herr(&e),
            }
        }
    }
}

fn exec_plain(core: &mut Hypercore, c: &Call, proofs: &[Proof]) -> String {
    let r = match c {
        Call::Append(..) => exec::call(core.append(&blocks_of(c)[0])).map(|r| match r {
            Ok(o) => format!("Ok({},{})", o.length, o.byte_length),
            Err(e) => herr(&e),
        }),
        Call::Batch(..) => exec::call(core.append_batch(blocks_of(c))).map(|r| match r {
            Ok(o) => format!("Ok({},{})", o.length, o.byte_length),
            Err(e) => herr(&e),
        }),
        Call::Get(i) => exec::call(core.get(*i)).map(|r| match r {
            Ok(v) => fmt_get(&v),
            Err(e) => herr(&e),
        }),
        Call::Has(i) => Ok(format!("{}", core.has(*i))),
        Call::Info => {
            let i = core.info();
            Ok(format!("({},{},{},{})", i.length, i.byte_length, i.contiguous_length, i.writeable))
        }
        Call::MissingNodes(i) => exec::call(core.missing_nodes(*i)).map(|r| match r {
            Ok(n) => format!("Ok({n})"),
            Err(e) => herr(&e),
        }),
        Call::CreateProof(b, u) => {
            let block = b.map(|i| RequestBlock { index: i, nodes: 0 });
            let up = u.map(|(s, l)| RequestUpgrade { start: s, length: l });
            exec::call(core.create_proof(block, None, None, up)).map(|r| match r {
                Ok(p) => fmt_proof(&p),
                Err(e) => herr(&e),
            })
        }
        Call::Apply(k) => exec::call(core.verify_and_apply_proof(&proofs[*k])).map(|r| match r {
            Ok(b) => format!("Ok({b})"),
            Err(e) => herr(&e),
        }),
        Call::Clear(s, e) => exec::call(core.clear(*s, *e)).map(|r| match r {
            Ok(()) => "Ok".into(),
            Err(e) => herr(&e),
        }),
    };
    r.unwrap_or_else(|p| format!("panic({})", exec::panic_sig(&p)))
}

#[derive(Clone, Debug)]
pub struct Config {
    pub replica: bool,
    pub key_seed: u64,
    pub prelude: u32,
    /// replica: how many of the writer's blocks the replica has upgraded to in the prelude
    pub replica_upgraded: u32,
    pub tasks: Vec<Vec<Call>>,
}

impl Config {
    fn to_json(&self) -> Value {
        json!({"replica": self.replica, "prelude_blocks": self.prelude, "replica_upgraded": self.replica_upgraded,
               "tasks": self.tasks.iter().map(|t| t.iter().map(|c| format!("{c:?}")).collect::<Vec<_>>()).collect::<Vec<_>>()})
    }
}

struct Built {
    core: Hypercore,
    world: Arc<Mutex<World>>,
    proofs: Vec<Proof>,
}

fn prelude_block(i: u32) -> Vec<u8> {
    block_bytes(0x0100_0000 + i, 3 + (i % 4) as usize)
}

/// Build the (plain) core of a configuration: same seed and prelude every time.
fn build(cfg: &Config) -> Result<Built, String> {
    let key: SigningKey = ops::key_from_seed(cfg.key_seed);
    let world = World::new();
    let mk = |w: &Arc<Mutex<World>>, secret: bool| -> Result<Hypercore, String> {
        match build_core(w, Some(keypair(&key, secret)), false, CacheMode::None) {
            Ok(Ok(c)) => Ok(c),
            Ok(Err(e)) => Err(e.to_string()),
            Err(p) => Err(p),
        }
    };
    if !cfg.replica {
        let mut core = mk(&world, true)?;
        for i in 0..cfg.prelude {
            exec::block_on(core.append(&prelude_block(i))).map_err(|e| e.to_string())?;
        }
        return Ok(Built { core, world, proofs: vec![] });
    }
    // replica: a separate writer produces honest proofs
    let ww = World::new();
    let mut w = mk(&ww, true)?;
    for i in 0..cfg.prelude {
        exec::block_on(w.append(&prelude_block(i))).map_err(|e| e.to_string())?;
    }
    let mut rep = mk(&world, false)?;
    let l = cfg.prelude as u64;
    let l0 = cfg.replica_upgraded as u64;
    if l0 > 0 {
        // The replica already follows the writer up to l0 < l blocks (prelude, applied before any
        // task starts): block proofs below l0 are valid at once and do not change the length,
        // upgrade proofs l0 -> l compete. Proof list: 0: upgrade + block l0; 1..l0-1: block i
        // without upgrade; l0: upgrade + block l-1; l0+1: upgrade + block (l0+l)/2.
        let ww2 = World::new();
        let mut w0 = mk(&ww2, true)?;
        for i in 0..l0 as u32 {
            exec::block_on(w0.append(&prelude_block(i))).map_err(|e| e.to_string())?;
        }
        let p_init = exec::block_on(w0.create_proof(Some(RequestBlock { index: 0, nodes: 0 }), None, None, Some(RequestUpgrade { start: 0, length: l0 }))).map_err(|e| e.to_string())?.ok_or("no proof")?;
        exec::block_on(rep.verify_and_apply_proof(&p_init)).map_err(|e| e.to_string())?;
        let tw = World::new();
        let mut twin = mk(&tw, false)?;
        exec::block_on(twin.verify_and_apply_proof(&p_init)).map_err(|e| e.to_string())?;
        let mut proofs = vec![];
        let up = Some(RequestUpgrade { start: l0, length: l - l0 });
        let n = exec::block_on(twin.missing_nodes(l0)).map_err(|e| e.to_string())?;
        proofs.push(exec::block_on(w.create_proof(Some(RequestBlock { index: l0, nodes: n }), None, None, up.clone())).map_err(|e| e.to_string())?.ok_or("no proof")?);
        for i in 1..l0 {
            let n = exec::block_on(twin.missing_nodes(i)).map_err(|e| e.to_string())?;
            proofs.push(exec::block_on(w.create_proof(Some(RequestBlock { index: i, nodes: n }), None, None, None)).map_err(|e| e.to_string())?.ok_or("no proof")?);
        }
        for b in [l - 1, (l0 + l) / 2] {
            let n = exec::block_on(twin.missing_nodes(b)).map_err(|e| e.to_string())?;
            proofs.push(exec::block_on(w.create_proof(Some(RequestBlock { index: b, nodes: n }), None, None, up.clone())).map_err(|e| e.to_string())?.ok_or("no proof")?);
        }
        return Ok(Built { core: rep, world, proofs });
    }
    let mut proofs = vec![];
    // proof 0: upgrade 0 -> l (with block 0); proofs 1..: blocks without upgrade (valid only after the upgrade)
    let p0 = exec::block_on(w.create_proof(Some(RequestBlock { index: 0, nodes: 0 }), None, None, Some(RequestUpgrade { start: 0, length: l }))).map_err(|e| e.to_string())?.ok_or("no proof")?;
    proofs.push(p0);
    // the remaining block proofs are created against a twin replica that has the upgrade, so that
    // node counts are what a replica at that state would ask for
    let tw = World::new();
    let mut twin = mk(&tw, false)?;
    exec::block_on(twin.verify_and_apply_proof(&proofs[0])).map_err(|e| e.to_string())?;
    for i in 1..l {
        let n = exec::block_on(twin.missing_nodes(i)).map_err(|e| e.to_string())?;
        let p = exec::block_on(w.create_proof(Some(RequestBlock { index: i, nodes: n }), None, None, None)).map_err(|e| e.to_string())?.ok_or("no proof")?;
        proofs.push(p);
    }
    // further proofs fetched against the still-empty replica: upgrade together with a block that is
    // not the first one (indices l.. of the proof list); which of the competing upgrade proofs
    // wins depends on the order, the data must be right in every order
    for b in [l - 1, l / 2] {
        let p = exec::block_on(w.create_proof(Some(RequestBlock { index: b, nodes: 0 }), None, None, Some(RequestUpgrade { start: 0, length: l }))).map_err(|e| e.to_string())?.ok_or("no proof")?;
        proofs.push(p);
    }
    let _ = &mut rep;
    Ok(Built { core: rep, world, proofs })
}

#[derive(Clone, Debug)]
pub struct Rec {
    pub task: usize,
    pub k: usize,
    pub call: Call,
    pub t_call: u64,
    pub t_ret: Option<u64>,
    pub result: Option<String>,
}

pub struct RunOut {
    pub recs: Vec<Rec>,
    pub stats: sched::RunStats,
    pub max_pending: u64,
    pub parked_while_holder_suspended: u64,
    pub final_core: Option<Hypercore>,
    pub widths: Vec<usize>,
    pub taken: Vec<usize>,
}

fn run_schedule(cfg: &Config, chooser: &mut dyn Chooser) -> Result<RunOut, String> {
    let b = build(cfg)?;
    b.world.lock().unwrap().yield_mode = true;
    let shared = SharedCore::from_hypercore(b.core);
    let proofs = Rc::new(b.proofs);
    let log: Rc<RefCell<Vec<Rec>>> = Rc::new(RefCell::new(vec![]));
    let clock = Rc::new(RefCell::new(0u64));
    let mut tasks: Vec<Task> = vec![];
    for (t, calls) in cfg.tasks.iter().enumerate() {
        let core = shared.clone();
        let calls = calls.clone();
        let log = log.clone();
        let clock = clock.clone();
        let proofs = proofs.clone();
        tasks.push(Box::pin(async move {
            for (k, c) in calls.iter().enumerate() {
                yield_once().await;
                let id = {
                    let mut cl = clock.borrow_mut();
                    *cl += 1;
                    let mut l = log.borrow_mut();
                    l.push(Rec { task: t, k, call: c.clone(), t_call: *cl, t_ret: None, result: None });
                    l.len() - 1
                };
                let res = exec_shared(&core, c, &proofs).await;
                let mut cl = clock.borrow_mut();
                *cl += 1;
                let mut l = log.borrow_mut();
                l[id].t_ret = Some(*cl);
                l[id].result = Some(res);
            }
        }));
    }
    let mut max_pending = 0u64;
    let mut parked = 0u64;
    let log2 = log.clone();
    let world = b.world.clone();
    let mut last_yields = 0u64;
    let stats = sched::run(tasks, chooser, 200_000, |_runnable, ready| {
        let l = log2.borrow();
        let open: Vec<usize> = l.iter().filter(|r| r.t_ret.is_none()).map(|r| r.task).collect();
        max_pending = max_pending.max(open.len() as u64);
        // a task with an open call that is not runnable is parked on the lock; the holder is
        // suspended in a storage operation when the backend has yielded since the last step
        let y = world.lock().unwrap().yields;
        let holder_in_storage = y > last_yields;
        last_yields = y;
        if holder_in_storage && open.iter().any(|t| !ready[*t]) && open.iter().any(|t| ready[*t]) {
            parked += 1;
        }
    });
    let recs = log.borrow().clone();
    let final_core = match Arc::try_unwrap(shared.0) {
        Ok(m) => Some(m.into_inner()),
        Err(_) => None,
    };
    Ok(RunOut { recs, stats, max_pending, parked_while_holder_suspended: parked, final_core, widths: vec![], taken: vec![] })
}

/// The same configuration under real OS threads (one per task, each busy-polling its own calls):
/// call/return are stamped from one global atomic clock, so real-time precedence is sound.
fn run_threads(cfg: &Config) -> Result<RunOut, String> {
    use std::sync::atomic::{AtomicU64, Ordering};
    let b = build(cfg)?;
    b.world.lock().unwrap().yield_mode = true;
    let shared = SharedCore::from_hypercore(b.core);
    let proofs = Arc::new(b.proofs);
    let log: Arc<Mutex<Vec<Rec>>> = Arc::new(Mutex::new(vec![]));
    let clock = Arc::new(AtomicU64::new(0));
    let mut handles = vec![];
    for (t, calls) in cfg.tasks.iter().enumerate() {
        let core = shared.clone();
        let calls = calls.clone();
        let log = log.clone();
        let clock = clock.clone();
        let proofs = proofs.clone();
        handles.push(std::thread::spawn(move || {
            for (k, c) in calls.iter().enumerate() {
                std::thread::yield_now();
                let id = {
                    let mut l = log.lock().unwrap();
                    let tc = clock.fetch_add(1, Ordering::SeqCst) + 1;
                    l.push(Rec { task: t, k, call: c.clone(), t_call: tc, t_ret: None, result: None });
                    l.len() - 1
                };
                let res = exec::block_on(exec_shared(&core, c, &proofs));
                let mut l = log.lock().unwrap();
                let tr = clock.fetch_add(1, Ordering::SeqCst) + 1;
                l[id].t_ret = Some(tr);
                l[id].result = Some(res);
            }
        }));
    }
    for h in handles {
        if h.join().is_err() {
            return Err("a task thread panicked".into());
        }
    }
    let recs = log.lock().unwrap().clone();
    let final_core = match Arc::try_unwrap(shared.0) {
        Ok(m) => Some(m.into_inner()),
        Err(_) => None,
    };
    let mut stats = sched::RunStats::default();
    stats.choice_hash = fnv(format!("{:?}", recs.iter().map(|r| (r.task, r.t_call, r.t_ret)).collect::<Vec<_>>()).as_bytes());
    Ok(RunOut { recs, stats, max_pending: 0, parked_while_holder_suspended: 0, final_core, widths: vec![], taken: vec![] })
}

/// Linearizability: find a total order respecting real-time precedence whose sequential replay
/// on a fresh plain core reproduces all results. Returns Ok(by_return_order) or Err(detail).
fn linearizable(cfg: &Config, recs: &[Rec], budget: &mut u64) -> Result<bool, Option<String>> {
    let n = recs.len();
    let replay = |order: &[usize]| -> Result<(), (usize, String)> {
        let mut b = build(cfg).map_err(|e| (0, e))?;
        for (pos, &i) in order.iter().enumerate() {
            let r = exec_plain(&mut b.core, &recs[i].call, &b.proofs);
            if Some(&r) != recs[i].result.as_ref() {
                return Err((pos, r));
            }
        }
        Ok(())
    };
    let mut by_ret: Vec<usize> = (0..n).collect();
    by_ret.sort_by_key(|i| recs[*i].t_ret.unwrap_or(u64::MAX));
    if replay(&by_ret).is_ok() {
        return Ok(true);
    }
    // backtracking over all orders that respect real-time precedence, pruned at the first call
    // whose sequential result differs from the recorded one
    fn dfs(prefix: &mut Vec<usize>, done: u64, n: usize, recs: &[Rec], replay: &dyn Fn(&[usize]) -> Result<(), (usize, String)>, seen: &mut HashSet<(u64, usize)>, budget: &mut u64) -> Option<bool> {
        if prefix.len() == n {
            return Some(true);
        }
        for c in 0..n {
            if done & (1 << c) != 0 {
                continue;
            }
            // real-time precedence: every call that returned before c was called must be done
            let ok = (0..n).all(|o| o == c || done & (1 << o) != 0 || !(recs[o].t_ret.map(|t| t < recs[c].t_call).unwrap_or(false)));
            if !ok {
                continue;
            }
            // (no memoisation on the set of linearised calls: the state reached depends on their
            // order, so pruning a set already seen under another order would be unsound)
            let _ = &seen;
            if *budget == 0 {
                return None;
            }
            *budget -= 1;
            prefix.push(c);
            if replay(prefix).is_ok() {
                match dfs(prefix, done | (1 << c), n, recs, replay, seen, budget) {
                    Some(true) => return Some(true),
                    None => return None,
                    _ => {}
                }
            }
            prefix.pop();
        }
        Some(false)
    }
    let mut seen = HashSet::new();
    let mut prefix = vec![];
    match dfs(&mut prefix, 0, n, recs, &replay, &mut seen, budget) {
        Some(true) => Ok(false),
        Some(false) => {
            let (pos, got) = replay(&by_ret).unwrap_err();
            Err(Some(format!("no sequential order reproduces the results; in return order call #{pos} ({:?} of task {}) gives {} sequentially but {} was observed", recs[by_ret[pos]].call, recs[by_ret[pos]].task, got, recs[by_ret[pos]].result.clone().unwrap_or_default())))
        }
        None => Err(None),
    }
}

/// Closed-form checks of the property text.
fn closed_form(cfg: &Config, out: &mut RunOut) -> Result<(), (String, String)> {
    let recs = &out.recs;
    if recs.iter().any(|r| r.result.is_none()) {
        return Err(("call-never-returned".into(), format!("{:?}", recs.iter().find(|r| r.result.is_none()))));
    }
    if cfg.replica {
        // whatever order the proofs were applied in: every block the replica ends up holding is
        // the writer's block, reads do not fail, the contiguous length is the first missing index
        if let Some(core) = out.final_core.as_mut() {
            let info = core.info();
            let mut first_missing = None;
            for i in 0..info.length {
                let held = core.has(i);
                match exec::call(core.get(i)) {
                    Ok(Ok(Some(b))) if held && b == prelude_block(i as u32) => {}
                    Ok(Ok(None)) if !held => {
                        if first_missing.is_none() {
                            first_missing = Some(i);
                        }
                    }
                    other => return Err(("replica-block-wrong-after-concurrent-proofs".into(), format!("block {i} (has = {held}): {:?}", other.map(|x| x.map(|y| y.map(|z| z.len())).map_err(|e| e.to_string()))))),
                }
            }
            let fm = first_missing.unwrap_or(info.length);
            if info.contiguous_length != fm {
                return Err(("replica-contiguous-wrong-after-concurrent-proofs".into(), format!("contiguous_length {} but the first block not held is {fm}", info.contiguous_length)));
            }
        }
        return Ok(());
    }
    // append outcomes: distinct, gap-free increasing lengths, byte lengths the running sum
    let mut apps: Vec<(u64, u64, &Rec)> = vec![];
    for r in recs {
        if let Call::Append(..) | Call::Batch(..) = r.call {
            let s = r.result.as_ref().unwrap();
            let Some(inner) = s.strip_prefix("Ok(").and_then(|x| x.strip_suffix(')')) else {
                return Err(("append-failed".into(), format!("{:?} -> {s}", r.call)));
            };
            let mut it = inner.split(',');
            let l: u64 = it.next().unwrap().parse().unwrap();
            let b: u64 = it.next().unwrap().parse().unwrap();
            apps.push((l, b, r));
        }
    }
    apps.sort_by_key(|a| (a.0, a.1));
    let mut len = cfg.prelude as u64;
    let mut bytes: u64 = (0..cfg.prelude).map(|i| prelude_block(i).len() as u64).sum();
    let mut expect_blocks: HashMap<u64, Vec<u8>> = HashMap::new();
    for i in 0..cfg.prelude {
        expect_blocks.insert(i as u64, prelude_block(i));
    }
    for (l, b, r) in &apps {
        let blocks = blocks_of(&r.call);
        if blocks.is_empty() {
            // an empty batch reports the current length: must be a length that existed
            continue;
        }
        let nl = len + blocks.len() as u64;
        let nb = bytes + blocks.iter().map(|x| x.len() as u64).sum::<u64>();
        if *l != nl || *b != nb {
            return Err(("append-outcomes-not-gap-free".into(), format!("sorted append outcomes: after ({len},{bytes}) the next is ({l},{b}) for a batch of {} blocks; expected ({nl},{nb})", blocks.len())));
        }
        for (k, blk) in blocks.into_iter().enumerate() {
            expect_blocks.insert(len + k as u64, blk);
        }
        len = nl;
        bytes = nb;
    }
    // final state: every task's blocks readable at the indices implied by its outcome
    let cleared: Vec<(u64, u64)> = recs.iter().filter_map(|r| if let Call::Clear(s, e) = r.call { Some((s, e)) } else { None }).collect();
    if let Some(core) = out.final_core.as_mut() {
        let info = core.info();
        if info.length != len || info.byte_length != bytes {
            return Err(("final-length".into(), format!("final info {info:?}, appends imply ({len},{bytes})")));
        }
        for (i, blk) in &expect_blocks {
            let in_clear = cleared.iter().any(|(s, e)| i >= s && i < e);
            match exec::call(core.get(*i)) {
                Ok(Ok(Some(b))) if &b == blk => {}
                Ok(Ok(None)) if in_clear => {}
                other => return Err(("block-not-at-implied-index".into(), format!("block {i}: {:?}", other.map(|x| x.map(|y| y.map(|z| z.len())).map_err(|e| e.to_string()))))),
            }
        }
    } else {
        return Err(("shared-core-still-referenced".into(), "".into()));
    }
    // every get result is exactly one appended block (or None); info pairs existed
    let valid_blocks: HashSet<String> = expect_blocks.values().map(|b| format!("Ok(Some({},{:x}))", b.len(), fnv(b))).collect();
    let mut pairs: HashSet<(u64, u64)> = HashSet::new();
    {
        let mut l = cfg.prelude as u64;
        let mut b: u64 = (0..cfg.prelude).map(|i| prelude_block(i).len() as u64).sum();
        pairs.insert((l, b));
        for (nl, nb, _) in &apps {
            l = *nl;
            b = *nb;
            pairs.insert((l, b));
        }
    }
    for r in recs {
        let s = r.result.as_ref().unwrap();
        match r.call {
            Call::Get(_) => {
                if s != "Ok(None)" && !valid_blocks.contains(s) {
                    return Err(("get-returned-non-block".into(), format!("{:?} -> {s}", r.call)));
                }
            }
            Call::Info => {
                let inner = s.trim_matches(|c| c == '(' || c == ')');
                let mut it = inner.split(',');
                let l: u64 = it.next().unwrap().parse().unwrap();
                let b: u64 = it.next().unwrap().parse().unwrap();
                if !pairs.contains(&(l, b)) {
                    return Err(("info-pair-never-existed".into(), format!("info() = {s}; pairs that existed: {pairs:?}")));
                }
            }
            _ => {}
        }
    }
    Ok(())
}

fn check_run(ctx: &mut Ctx, cfg: &Config, out: &mut RunOut, label: &str) -> bool {
    ctx.count("schedules");
    ctx.eval(Some(out.stats.choice_hash ^ fnv(format!("{:?}", cfg.to_json()).as_bytes())));
    ctx.add("polls", out.stats.polls);
    ctx.add("task_switches", out.stats.switches);
    ctx.maxc("pending_calls", out.max_pending);
    ctx.add("parked_on_lock_while_holder_suspended_in_storage_op", out.parked_while_holder_suspended);
    let replay = json!({"kind":"schedule","config": cfg.to_json(), "label": label,
        "history": out.recs.iter().map(|r| json!({"task": r.task, "call": format!("{:?}", r.call), "t_call": r.t_call, "t_ret": r.t_ret, "result": r.result})).collect::<Vec<_>>()});
    if out.stats.deadlock {
        ctx.violate("deadlock".into(), "no task runnable while calls are pending".into(), replay);
        return false;
    }
    if out.stats.budget_exhausted {
        ctx.violate("livelock:step-budget-exhausted".into(), "200000 scheduler steps without completion".into(), replay);
        return false;
    }
    if let Err((sig, d)) = closed_form(cfg, out) {
        ctx.violate(format!("closed-form:{sig}"), d, replay);
        return false;
    }
    ctx.count("closed_form_checks");
    let mut budget = 20_000u64;
    match linearizable(cfg, &out.recs, &mut budget) {
        Ok(true) => ctx.count("linearizable_by_return_order"),
        Ok(false) => ctx.count("linearizable_by_search"),
        Err(Some(d)) => {
            ctx.violate("not-linearizable".into(), d, replay);
            return false;
        }
        Err(None) => {
            ctx.count("linearizability_search_budget_exhausted");
            ctx.notes.push("linearizability search exhausted its node budget (inconclusive for that schedule)".into());
        }
    }
    true
}

fn count_calls(ctx: &mut Ctx, cfg: &Config) {
    ctx.count(if cfg.replica { "config:replica" } else { "config:writer" });
    for t in &cfg.tasks {
        for c in t {
            ctx.count(&format!("calls:{}", c.kind()));
        }
    }
}

/// Exhaustive DFS over all schedules of a configuration (with a cap).
fn dfs_all(ctx: &mut Ctx, cfg: &Config, cap: u64) {
    count_calls(ctx, cfg);
    let mut prefix: Vec<usize> = vec![];
    let mut n = 0u64;
    loop {
        let mut ch = PrefixChooser { prefix: prefix.clone(), taken: vec![], widths: vec![] };
        let mut out = match run_schedule(cfg, &mut ch) {
            Ok(o) => o,
            Err(e) => {
                ctx.count("scenario_unusable");
                ctx.notes.push(format!("config could not be built: {e}"));
                return;
            }
        };
        n += 1;
        if !check_run(ctx, cfg, &mut out, "dfs") {
            return;
        }
        // next schedule: increment the last choice that has an untried alternative
        let (taken, widths) = (ch.taken, ch.widths);
        let mut i = taken.len();
        let mut next: Option<Vec<usize>> = None;
        while i > 0 {
            i -= 1;
            if taken[i] + 1 < widths[i] {
                let mut p = taken[..i].to_vec();
                p.push(taken[i] + 1);
                next = Some(p);
                break;
            }
        }
        match next {
            Some(p) => prefix = p,
            None => {
                ctx.count("dfs_exhaustive_configs");
                ctx.add("dfs_schedules", n);
                ctx.sample(|| json!({"kind":"dfs-exhaustive","config": cfg.to_json(), "schedules": n}));
                return;
            }
        }
        if n >= cap {
            ctx.count("dfs_cap_hit");
            ctx.add("dfs_schedules", n);
            return;
        }
    }
}

fn random_call(r: &mut Rng, len_hint: u64, tag: &mut u32, replica: bool, nproofs: usize) -> Call {
    if replica {
        return match r.below(11) {
            0..=4 => Call::Apply(r.below(nproofs as u64) as usize),
            5 => Call::Get(r.below(len_hint + 1)),
            6 => Call::Has(r.below(len_hint + 1)),
            7 => Call::Info,
            // the shared replica also serves: upgrade and block proofs to a further peer
            8 => Call::CreateProof(if r.chance(1, 2) { Some(r.below(len_hint.max(1))) } else { None }, if r.chance(2, 3) { Some((0, 1 + r.below(len_hint.max(1)))) } else { None }),
            _ => Call::MissingNodes(r.below(len_hint + 1)),
        };
    }
    match r.below(12) {
        0..=2 => {
            *tag += 1;
            // empty blocks too: their leaves have size 0 but a hash of their own
            Call::Append(*tag, if r.chance(1, 6) { 0 } else { 4 + r.below(9) as u32 })
        }
        3 => {
            let k = r.below(4) as u32;
            let b = (0..k).map(|i| (*tag + 1 + i, if r.chance(1, 6) { 0 } else { 4 + r.below(6) as u32 })).collect();
            *tag += k;
            Call::Batch(b)
        }
        4..=5 => Call::Get(r.below(len_hint + 3)),
        6 => Call::Has(r.below(len_hint + 3)),
        7 => Call::Info,
        8 => Call::CreateProof(Some(r.below(len_hint.max(1))), if r.chance(1, 2) { Some((0, len_hint.max(1))) } else { None }),
        9 => Call::MissingNodes(r.below(len_hint + 1)),
        10 => {
            let s = r.below(len_hint.max(1));
            Call::Clear(s, s + 1)
        }
        _ => Call::CreateProof(None, Some((0, 1 + r.below(len_hint.max(1))))),
    }
}

fn dfs_config(id: u64) -> Config {
    // smallest configurations: 2 tasks x <= 2 calls, 3 tasks x 1 call
    let a = |t: u32| Call::Append(t, 5);
    let w = |tasks: Vec<Vec<Call>>| Config { replica: false, key_seed: 15_000 + id, prelude: 2, replica_upgraded: 0, tasks };
    let rp = |tasks: Vec<Vec<Call>>| Config { replica: true, key_seed: 15_000 + id, prelude: 4, replica_upgraded: 0, tasks };
    match id {
        0 => w(vec![vec![a(1)], vec![a(2)]]),
        1 => w(vec![vec![a(1), Call::Get(2)], vec![a(2), Call::Info]]),
        2 => w(vec![vec![Call::Batch(vec![(1, 4), (2, 6)])], vec![Call::Get(2), Call::Get(3)]]),
        3 => w(vec![vec![a(1)], vec![a(2)], vec![Call::Info]]),
        4 => w(vec![vec![a(1)], vec![Call::Has(2)], vec![Call::Get(2)]]),
        5 => w(vec![vec![a(1), a(2)], vec![Call::Clear(0, 1), Call::Get(0)]]),
        6 => w(vec![vec![Call::CreateProof(Some(1), Some((0, 2))), a(1)], vec![a(2), Call::CreateProof(Some(2), None)]]),
        7 => w(vec![vec![Call::Batch(vec![(1, 4), (2, 4), (3, 4)])], vec![Call::Info], vec![Call::Get(4)]]),
        8 => w(vec![vec![Call::Clear(0, 2)], vec![Call::Get(1)], vec![a(1)]]),
        9 => w(vec![vec![a(1), Call::MissingNodes(1)], vec![Call::Batch(vec![]), a(2)]]),
        10 => rp(vec![vec![Call::Apply(0)], vec![Call::Apply(1)]]),
        11 => rp(vec![vec![Call::Apply(0), Call::Apply(2)], vec![Call::Apply(1), Call::Get(1)]]),
        12 => rp(vec![vec![Call::Apply(0)], vec![Call::Info], vec![Call::Get(0)]]),
        13 => rp(vec![vec![Call::Apply(0), Call::Has(0)], vec![Call::MissingNodes(2), Call::Apply(3)]]),
        14 => rp(vec![vec![Call::Apply(0)], vec![Call::Apply(4)], vec![Call::Apply(5)]]),
        15 => w(vec![vec![a(1), Call::Has(2)], vec![a(2), Call::Has(3)]]),
        16 => w(vec![vec![a(1)], vec![a(2)], vec![a(3)]]),
        17 => w(vec![vec![Call::Batch(vec![(1, 3), (2, 3)]), Call::Info], vec![Call::Batch(vec![(3, 3), (4, 3)]), Call::Info]]),
        18 => w(vec![vec![Call::Get(0), a(1)], vec![Call::Clear(0, 1), Call::Info]]),
        19 => rp(vec![vec![Call::Apply(0), Call::Info], vec![Call::Get(0), Call::Get(0)]]),
        20 => w(vec![vec![a(1), a(2)], vec![Call::Info, Call::Info]]),
        21 => w(vec![vec![Call::CreateProof(None, Some((0, 2)))], vec![a(1)], vec![Call::Clear(1, 2)]]),
        22 => rp(vec![vec![Call::Apply(4), Call::Info], vec![Call::Apply(0), Call::Apply(5)]]),
        _ => w(vec![vec![a(1), Call::Get(3)], vec![a(2), Call::Get(2)]]),
    }
}

/// Directed configurations for the fair-lock schedules: calls whose effects would be split if the
/// lock were released in mid-call, together with observers.
fn fair_config(k: u64) -> Config {
    let a = |t: u32| Call::Append(t, 5);
    let w = |tasks: Vec<Vec<Call>>| Config { replica: false, key_seed: 15_500 + k, prelude: 2, replica_upgraded: 0, tasks };
    let rp = |tasks: Vec<Vec<Call>>| Config { replica: true, key_seed: 15_500 + k, prelude: 4, replica_upgraded: 0, tasks };
    let rpu = |tasks: Vec<Vec<Call>>| Config { replica: true, key_seed: 15_500 + k, prelude: 8, replica_upgraded: 4, tasks };
    match k {
        0 => w(vec![vec![Call::Batch(vec![(1, 4), (2, 4), (3, 4)])], vec![a(4)], vec![Call::Info, Call::Info, Call::Info]]),
        1 => w(vec![vec![Call::Batch(vec![(1, 4), (2, 4)])], vec![Call::Batch(vec![(3, 4), (4, 4), (5, 4)])], vec![Call::Has(3), Call::Info, Call::Has(4), Call::Get(3)]]),
        2 => rp(vec![vec![Call::Apply(0)], vec![Call::Apply(4)], vec![Call::Info, Call::Has(3), Call::Info]]),
        3 => rp(vec![vec![Call::Apply(4), Call::Apply(1)], vec![Call::Apply(5), Call::Apply(2)]]),
        4 => w(vec![vec![a(1), a(2)], vec![Call::Batch(vec![(3, 4), (4, 4)]), Call::Info], vec![Call::Get(3), Call::Info, Call::Has(4)]]),
        5 => w(vec![vec![Call::Clear(0, 2)], vec![a(1)], vec![Call::Info, Call::Has(0), Call::Get(1)]]),
        6 => rp(vec![vec![Call::Apply(5)], vec![Call::Apply(0)], vec![Call::Apply(4)], vec![Call::Get(2), Call::Get(3), Call::Get(0)]]),
        // warm-up calls first (storage operations, no conflict) so that waiters have queued up and
        // the hand-over is fair by the time the conflicting calls run
        8 => rpu(vec![vec![Call::Apply(1), Call::Apply(0)], vec![Call::Apply(2), Call::Apply(4)], vec![Call::Apply(3), Call::Apply(5)]]),
        9 => rpu(vec![vec![Call::Apply(1), Call::Apply(0)], vec![Call::Apply(2), Call::Apply(4)], vec![Call::Get(0), Call::Info, Call::Has(7), Call::Get(7)]]),
        10 => rpu(vec![vec![Call::Get(0), Call::Apply(0)], vec![Call::Get(0), Call::Apply(5)], vec![Call::Get(0), Call::Apply(4)]]),
        11 => w(vec![vec![Call::Get(0), Call::Batch(vec![(1, 4), (2, 4), (3, 4)])], vec![Call::Get(1), a(4)], vec![Call::Get(0), Call::Info, Call::Has(3), Call::Info]]),
        12 => w(vec![vec![Call::CreateProof(Some(0), None), Call::Batch(vec![(1, 4), (2, 4)]), Call::Info], vec![Call::Get(1), a(3), Call::Info], vec![Call::Get(0), Call::Get(2), Call::Get(3), Call::Get(4)]]),
        13 => w(vec![vec![Call::Get(0), a(1), a(2)], vec![Call::Get(1), Call::Batch(vec![(3, 4), (4, 4), (5, 4)])], vec![Call::Get(0), Call::Has(2), Call::Has(4), Call::Info]]),
        _ => w(vec![vec![Call::Batch(vec![(1, 4), (2, 4), (3, 4), (4, 4)])], vec![a(5)], vec![a(6)], vec![Call::Info, Call::Has(5), Call::Info, Call::Has(3)]]),
    }
}

/// One schedule in fair-lock mode (see sched.rs).
fn run_schedule_fair(cfg: &Config, chooser: &mut dyn Chooser) -> Result<RunOut, String> {
    sched::FAIR_LOCK_US.store(600, std::sync::atomic::Ordering::Relaxed);
    let out = run_schedule(cfg, chooser);
    sched::FAIR_LOCK_US.store(0, std::sync::atomic::Ordering::Relaxed);
    out
}

fn fair_schedules(ctx: &mut Ctx, cfg: &Config, r: &mut Rng, n: u64) -> bool {
    for k in 0..n {
        let mut ch = PctChooser::new(r.fork(0xFA1 + k), cfg.tasks.len(), 3, 120);
        let mut out = match run_schedule_fair(cfg, &mut ch) {
            Ok(o) => o,
            Err(e) => {
                ctx.count("scenario_unusable");
                ctx.notes.push(format!("config could not be built: {e}"));
                return false;
            }
        };
        ctx.count("fair_lock_schedules");
        ctx.add("fair_lock_waits", out.stats.fair_waits);
        if !check_run(ctx, cfg, &mut out, "fair-lock") {
            return false;
        }
    }
    true
}

fn run_case(ctx: &mut Ctx, id: u64) {
    let t = ctx.tier;
    let mut r = ctx.case_rng(id);
    if id < N_DFS {
        let cfg = dfs_config(id);
        dfs_all(ctx, &cfg, t.pick(20_000, 300_000));
        return;
    }
    if id < N_DFS + N_FAIR {
        let k = id - N_DFS;
        let cfg = if k < N_DFS { dfs_config(k) } else { fair_config(k - N_DFS) };
        count_calls(ctx, &cfg);
        ctx.count("fair_lock_configs");
        fair_schedules(ctx, &cfg, &mut r, t.pick(40, 400));
        return;
    }
    // seeded-random configurations and schedules
    let replica = r.chance(1, 3);
    let ntasks = 2 + r.below(3) as usize;
    let prelude = if replica { 3 + r.below(4) as u32 } else { r.below(5) as u32 };
    let mut tag = 0u32;
    let mut tasks = vec![];
    for _ in 0..ntasks {
        let nc = 1 + r.below(4) as usize;
        tasks.push((0..nc).map(|_| random_call(&mut r, prelude as u64 + 2, &mut tag, replica, prelude as usize + 2)).collect());
    }
    let cfg = Config { replica, key_seed: r.next_u64(), prelude, replica_upgraded: 0, tasks };
    count_calls(ctx, &cfg);
    ctx.count("random_configs");
    let nsched = if id < N_DFS + N_FAIR + 8 { 200 } else { t.pick(12, 40) };
    for k in 0..nsched {
        let mut ch = PctChooser::new(r.fork(k), ntasks, 3, 120);
        let mut out = match run_schedule(&cfg, &mut ch) {
            Ok(o) => o,
            Err(e) => {
                ctx.count("scenario_unusable");
                ctx.notes.push(format!("config could not be built: {e}"));
                return;
            }
        };
        if !check_run(ctx, &cfg, &mut out, "pct") {
            return;
        }
    }
    // every fourth configuration also runs a few schedules in fair-lock mode
    if id % 4 == 1 && !fair_schedules(ctx, &cfg, &mut r, t.pick(3, 8)) {
        return;
    }
    // every eighth configuration also runs under real OS threads (true parallelism, OS schedules)
    if id % 8 == 0 {
        for _ in 0..10 {
            let mut out = match run_threads(&cfg) {
                Ok(o) => o,
                Err(e) => {
                    ctx.violate("threaded-run-failed".into(), e, json!({"kind":"threads","config": cfg.to_json()}));
                    return;
                }
            };
            ctx.count("threaded_runs");
            if !check_run(ctx, &cfg, &mut out, "os-threads") {
                return;
            }
        }
    }
    if id % 997 == 0 {
        ctx.sample(|| json!({"kind":"random-config","config": cfg.to_json(), "schedules": nsched}));
    }
    let _ = Tier::Quick;
}
