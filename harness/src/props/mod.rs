pub mod c01;
pub mod c02;
pub mod c02r;
pub mod c03;
pub mod c04;
pub mod c05;
pub mod c06;
pub mod c08;
pub mod c09;
pub mod c10;
pub mod c11;
pub mod c12;
pub mod c13;
pub mod c14;
pub mod c15;

use crate::framework::Spec;

pub fn all() -> Vec<&'static Spec> {
    vec![&c01::SPEC, &c02::SPEC, &c02::SPEC_C07, &c10::SPEC, &c03::SPEC, &c04::SPEC, &c09::SPEC, &c13::SPEC, &c12::SPEC, &c08::SPEC, &c11::SPEC, &c05::SPEC, &c06::SPEC, &c14::SPEC, &c15::SPEC]
}

pub fn find(id: &str) -> Option<&'static Spec> {
    all().into_iter().find(|s| s.id == id)
}

pub fn c11_run_case(ctx: &mut crate::framework::Ctx, id: u64) {
    (c11::SPEC.run_case)(ctx, id)
}
pub fn c13_run_case(ctx: &mut crate::framework::Ctx, id: u64) {
    (c13::SPEC.run_case)(ctx, id)
}
