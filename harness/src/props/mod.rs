pub mod c01;
pub mod c02;
pub mod c02r;

use crate::framework::Spec;

pub fn all() -> Vec<&'static Spec> {
    vec![&c01::SPEC, &c02::SPEC, &c02::SPEC_C07]
}

pub fn find(id: &str) -> Option<&'static Spec> {
    all().into_iter().find(|s| s.id == id)
}
