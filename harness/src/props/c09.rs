//! C09 — no request or proof from a peer can panic the node.

use crate::exec;
use crate::framework::{Ctx, Spec};
use crate::gen;
use crate::model::*;
use crate::mutate::{self, boundary_values};
use crate::ops::{self, CacheMode, Fail, Op, Sut};
use crate::repl::{self, apply_proof, create_proof, Plan, Replica, Request};
use crate::rng::Rng;
use crate::world::World;
use hypercore::{Hypercore, Proof, RequestBlock, RequestSeek, RequestUpgrade};
use serde_json::json;
use std::sync::{Arc, Mutex};

pub static SPEC: Spec = Spec {
    id: "C09",
    level: "exploration",
    fixed_cases: |_| N_CORES * N_MODES,
    random_secs: |t| t.pick(15, 240),
    random_cap: |t| t.pick(100_000, 3_000_000),
    run_case,
    required: &[
        "create_proof:Ok(Some)",
        "create_proof:Ok(None)",
        "create_proof:Err",
        "verify:Ok(true)",
        "verify:Ok(false)",
        "verify:Err",
        "proofs_empty_node_lists",
        "proofs_zero_length_upgrade",
        "proofs_wrong_length_signature",
        "usability_probes",
        "request_field_at_2^40-1",
        "request_field_at_L",
        "request_field_at_2L+1",
        "core_kind:empty-writer",
        "core_kind:replica-empty",
        "core_kind:replica-sparse-reopened",
        "core_kind:writer-with-cleared",
    ],
    rule: "a case = one core (empty, 1 block, single-root 2^k, multi-root, with cleared blocks, reopened, 1000 blocks; replicas: empty, upgraded-only, sparse, complete, reopened) x one mode: request tuples with every field of block/hash/seek/upgrade drawn from {0,1,L-1,L,L+1,2L-1,2L,2L+1,2^32-1,2^32,2^40-1} (L = length, byte length or node count) as cross products (block x upgrade, hash x upgrade, seek x block x upgrade) plus random full tuples; proofs: the C04 single-field alteration set over honest proofs, plus structurally arbitrary proofs (random sections, 0-8 random nodes with boundary indices, random/empty/short signatures, zero-length upgrades); every create_proof / verify_and_apply_proof call runs under catch_unwind with a storage-operation runaway guard; outcome must be a value or an error; a refused proof leaves info() unchanged; afterwards info, a read, an honest request/proof round trip and (writers) an append must behave per the model; the same cases run in an overflow-checked debug build (thorough, and a reduced slice in quick); evaluations = calls; distinct = (core kind, request/proof hash)",
    assumptions: &["numeric fields below 2^40 (the property's bound)", "hangs are decided by the per-case process watchdog (90 s for cases that take < 3 s; runaway allocation hits the worker's 6 GB address-space limit) and confirmed by a solo re-run"],
    exhaustive_note: "cross products block x upgrade, hash x upgrade, seek x block x reduced-upgrade over the boundary value sets are complete per directed core",
    hang_secs: 90,
};

const N_CORES: u64 = 15;
const N_MODES: u64 = 5;

pub struct Target {
    pub kind: &'static str,
    pub core: Hypercore,
    pub world: Arc<Mutex<World>>,
    pub model: Model,
    /// writer to serve honest proofs to this core when it is a replica
    pub writer: Option<Sut>,
    pub honest: Vec<(Request, Proof)>,
}

fn app(t: u32, n: u32) -> Vec<Op> {
    (0..n).map(|i| Op::Append(t + i, [5u32, 0, 9, 3, 7, 1][((t + i) % 6) as usize])).collect()
}

/// Build target core number k. Honest (request, proof) pairs that the target would accept next
/// are collected for the alteration mode.
fn build_target(k: u64, r: &mut Rng, cache: CacheMode) -> Result<Target, Fail> {
    let key_seed = 7000 + k;
    let writer_n: [u32; 9] = [0, 1, 2, 4, 5, 7, 8, 33, 1000];
    if k < 9 {
        let mut w = Sut::create(key_seed, World::new(), cache)?;
        let n = writer_n[k as usize];
        if n == 1000 {
            repl::apply_writer_ops(&mut w, &[Op::Batch((0..n).map(|i| (i + 1, 1 + i % 3)).collect())])?;
        } else {
            repl::apply_writer_ops(&mut w, &app(1, n))?;
        }
        let mut kind = ["empty-writer", "writer-1", "writer-2", "writer-4-single-root", "writer-5-multi-root", "writer-7-three-roots", "writer-with-cleared", "writer-33", "writer-1000"][k as usize];
        if k == 6 {
            repl::apply_writer_ops(&mut w, &[Op::Clear(2, 5)])?;
        }
        if k == 7 {
            w.reopen()?;
            kind = "writer-33-reopened";
        }
        let world = w.world.clone();
        let model = w.model.clone();
        let core = w.core.take().unwrap();
        return Ok(Target { kind, core, world, model, writer: None, honest: vec![] });
    }
    // replicas
    let mut w = Sut::create(key_seed, World::new(), cache)?;
    repl::apply_writer_ops(&mut w, &app(1, 6 + (k as u32 % 3) * 5))?;
    let mut rep = Replica::create(&w.key, cache)?;
    let wl = w.model.length();
    let kind = match k {
        9 => "replica-empty",
        10 => {
            repl::round(&mut w, &mut rep, &Plan { upgrade: Some(wl), ..Default::default() })?;
            "replica-upgraded-only"
        }
        11 => {
            repl::round(&mut w, &mut rep, &Plan { upgrade: Some(wl - 2), block: Some(3), ..Default::default() })?;
            repl::round(&mut w, &mut rep, &Plan { block: Some(wl - 1), ..Default::default() })?;
            "replica-sparse"
        }
        12 => {
            repl::complete(&mut w, &mut rep)?;
            "replica-complete"
        }
        13 => {
            repl::round(&mut w, &mut rep, &Plan { upgrade: Some(wl), block: Some(1), ..Default::default() })?;
            repl::round(&mut w, &mut rep, &Plan { hash: Some(9), ..Default::default() })?;
            rep.reopen()?;
            "replica-sparse-reopened"
        }
        _ => {
            repl::round(&mut w, &mut rep, &Plan { upgrade: Some(3), ..Default::default() })?;
            repl::apply_writer_ops(&mut w, &app(100, 5))?;
            "replica-behind"
        }
    };
    // honest next proofs
    let mut honest = vec![];
    let wl = w.model.length();
    for _ in 0..6 {
        let plan = repl::random_plan(r, rep.model.length(), wl, &w.model, &rep.model);
        if plan == Plan::default() {
            continue;
        }
        let req = rep.make_request(&plan)?;
        if let Ok(Ok(Some(p))) = create_proof(w.core(), &req) {
            honest.push((req, p));
        }
    }
    let world = rep.world.clone();
    let model = rep.model.clone();
    Ok(Target { kind, core: rep.core.take().unwrap(), world, model, writer: Some(w), honest })
}

fn tag(v: u64, l: u64) -> Option<&'static str> {
    if v == (1 << 40) - 1 {
        Some("request_field_at_2^40-1")
    } else if v == l && l > 0 {
        Some("request_field_at_L")
    } else if v == 2 * l + 1 && l > 0 {
        Some("request_field_at_2L+1")
    } else {
        None
    }
}

struct Driver<'a> {
    ctx: &'a mut Ctx,
    t: Target,
    calls: u64,
}

impl<'a> Driver<'a> {
    fn req(&mut self, req: &Request) {
        let before_ops = self.t.world.lock().unwrap().op_counter;
        let res = create_proof(&mut self.t.core, req);
        let ops_used = self.t.world.lock().unwrap().op_counter - before_ops;
        self.calls += 1;
        self.ctx.maxc("storage_ops_per_create_proof", ops_used);
        let h = crate::rng::fnv(format!("{}|{:?}", self.t.kind, req).as_bytes());
        self.ctx.eval(Some(h));
        if self.calls % 3001 == 17 {
            let kind = self.t.kind;
            let outcome = match &res { Ok(Ok(Some(_))) => "Ok(Some(proof))".to_string(), Ok(Ok(None)) => "Ok(None)".into(), Ok(Err(e)) => format!("Err({e})"), Err(p) => format!("panic: {p}") };
            self.ctx.sample(|| json!({"kind":"request","core":kind,"request":format!("{req:?}"),"outcome":outcome,"storage_ops":ops_used}));
        }
        match res {
            Ok(Ok(Some(_))) => self.ctx.count("create_proof:Ok(Some)"),
            Ok(Ok(None)) => self.ctx.count("create_proof:Ok(None)"),
            Ok(Err(_)) => self.ctx.count("create_proof:Err"),
            Err(p) => {
                self.ctx.violate(
                    format!("create_proof:panic:{}", exec::panic_sig(&p)),
                    format!("core {} (length {}): create_proof({:?}) panicked: {p}", self.t.kind, self.t.model.length(), req),
                    json!({"kind":"request","core":self.t.kind,"request":format!("{req:?}")}),
                );
            }
        }
        if ops_used > 200_000 {
            self.ctx.violate("create_proof:runaway".into(), format!("{} storage operations for one create_proof({:?})", ops_used, req), json!({"kind":"request","core":self.t.kind}));
        }
    }
    fn proof(&mut self, p: &Proof, label: &str) {
        let info0 = self.t.core.info();
        let before_ops = self.t.world.lock().unwrap().op_counter;
        let res = apply_proof(&mut self.t.core, p);
        let ops_used = self.t.world.lock().unwrap().op_counter - before_ops;
        self.calls += 1;
        self.ctx.eval(Some(crate::rng::fnv(format!("{}|{:?}", self.t.kind, p).as_bytes())));
        if p.upgrade.as_ref().map(|u| u.length == 0).unwrap_or(false) {
            self.ctx.count("proofs_zero_length_upgrade");
        }
        if p.upgrade.as_ref().map(|u| u.signature.len() != 64).unwrap_or(false) {
            self.ctx.count("proofs_wrong_length_signature");
        }
        if p.block.as_ref().map(|b| b.nodes.is_empty()).unwrap_or(false) || p.upgrade.as_ref().map(|u| u.nodes.is_empty()).unwrap_or(false) {
            self.ctx.count("proofs_empty_node_lists");
        }
        match res {
            Ok(Ok(true)) => {
                self.ctx.count("verify:Ok(true)");
                // the target's model is no longer exact; resynchronise from observation for probes
                self.t.model = model_from_observation(&mut self.t.core, &self.t.model);
            }
            Ok(Ok(false)) | Ok(Err(_)) => {
                self.ctx.count(if matches!(res, Ok(Ok(false))) { "verify:Ok(false)" } else { "verify:Err" });
                let info1 = self.t.core.info();
                if info1 != info0 {
                    self.ctx.violate(
                        format!("refused-proof-changed-info:{label}"),
                        format!("core {}: refused proof changed info from {:?} to {:?}", self.t.kind, info0, info1),
                        json!({"kind":"proof","core":self.t.kind,"proof":format!("{p:?}")}),
                    );
                }
            }
            Err(pn) => {
                self.ctx.violate(
                    format!("verify:panic:{}", exec::panic_sig(&pn)),
                    format!("core {} (length {}): verify_and_apply_proof panicked on {label}: {pn}; proof {:?}", self.t.kind, self.t.model.length(), p),
                    json!({"kind":"proof","core":self.t.kind,"proof":format!("{p:?}")}),
                );
                // a panicking call may leave the instance in an undefined state: rebuild by reopen
                if let Ok(Ok(c)) = ops::build_core(&self.t.world, None, true, CacheMode::None) {
                    self.t.core = c;
                    self.t.model = model_from_observation(&mut self.t.core, &self.t.model);
                }
            }
        }
        if ops_used > 200_000 {
            self.ctx.violate("verify:runaway".into(), format!("{} storage operations for one verify_and_apply_proof", ops_used), json!({"kind":"proof","core":self.t.kind}));
        }
    }
    /// the core is still usable: info, reads, honest round trip, append (writers)
    fn usability(&mut self) {
        self.ctx.count("usability_probes");
        let o = observe(&mut self.t.core, 40);
        let e = self.t.model.expected_like(&o);
        if let Some((c, d)) = diff(&o, &e, CMP_HAS) {
            self.ctx.violate(format!("after-hostile-calls:obs:{c}"), format!("core {}: {d}", self.t.kind), json!({"kind":"case","core":self.t.kind}));
            return;
        }
        let l = self.t.model.length();
        if l > 0 {
            // honest request for a held block (or hash 0) must still work
            let held = (0..l).find(|i| self.t.model.get(*i).is_some());
            let req = match held {
                Some(i) => Request { block: Some(RequestBlock { index: i, nodes: 0 }), hash: None, seek: None, upgrade: None },
                None => Request { block: None, hash: None, seek: None, upgrade: Some(RequestUpgrade { start: 0, length: l }) },
            };
            match create_proof(&mut self.t.core, &req) {
                Ok(Ok(Some(_))) => {}
                Ok(Ok(None)) => self.ctx.violate("after-hostile-calls:honest-request-none".into(), format!("core {}: {req:?} -> None", self.t.kind), json!({"kind":"case"})),
                Ok(Err(e)) => {
                    // a sparse replica may legitimately lack nodes; only complete cores must serve
                    if self.t.writer.is_none() {
                        self.ctx.violate(format!("after-hostile-calls:honest-request-err:{}", ops::err_sig(&e)), format!("core {}: {req:?} -> {e}", self.t.kind), json!({"kind":"case"}));
                    }
                }
                Err(p) => self.ctx.violate(format!("after-hostile-calls:panic:{}", exec::panic_sig(&p)), p, json!({"kind":"case"})),
            }
        }
        if self.t.model.writable {
            let tagv = 0x6000_0000 + l as u32;
            match exec::call(self.t.core.append(&crate::rng::block_bytes(tagv, 5))) {
                Ok(Ok(out)) => {
                    self.t.model.append_batch(&[crate::rng::block_bytes(tagv, 5)]);
                    if out.length != self.t.model.length() {
                        self.ctx.violate("after-hostile-calls:append-outcome".into(), format!("{out:?}"), json!({"kind":"case"}));
                    }
                }
                Ok(Err(e)) => self.ctx.violate(format!("after-hostile-calls:append-err:{}", ops::err_sig(&e)), format!("{e}"), json!({"kind":"case"})),
                Err(p) => self.ctx.violate(format!("after-hostile-calls:append-panic:{}", exec::panic_sig(&p)), p, json!({"kind":"case"})),
            }
        }
        // replicas: an honest proof is still accepted
        if let Some(w) = self.t.writer.as_mut() {
            let wl = w.model.length();
            let rl = self.t.model.length();
            if rl < wl {
                let req = Request { block: None, hash: None, seek: None, upgrade: Some(RequestUpgrade { start: rl, length: wl - rl }) };
                if let Ok(Ok(Some(p))) = create_proof(w.core(), &req) {
                    match apply_proof(&mut self.t.core, &p) {
                        Ok(Ok(true)) => {
                            let wm = w.model.clone();
                            let wl = wm.length() as usize;
                            self.t.model.sizes = wm.sizes[..wl].to_vec();
                            while self.t.model.blocks.len() < wl {
                                self.t.model.blocks.push(None);
                            }
                        }
                        other => self.ctx.violate(
                            "after-hostile-calls:honest-proof-refused".into(),
                            format!("core {}: honest upgrade {:?} -> {:?}", self.t.kind, req, other.map(|r| r.map_err(|e| e.to_string()))),
                            json!({"kind":"case"}),
                        ),
                    }
                }
            }
        }
        // ... and what it shows now is what it shows after a close and reopen: nothing a peer sent
        // may leave the instance and its storage out of step (every 4th probe; the reopened
        // instance carries on)
        if true {
            let before = observe(&mut self.t.core, 40);
            match ops::build_core(&self.t.world, None, true, CacheMode::None) {
                Ok(Ok(c)) => {
                    self.t.core = c;
                    let after = observe(&mut self.t.core, 40);
                    self.ctx.count("usability_reopens");
                    if let Some((c, d)) = diff(&after, &before, CMP_HAS) {
                        self.ctx.violate(format!("after-hostile-calls:reopen-changed:{c}"), format!("core {}: reopening after the hostile calls and the usability probe changed the observation: {d}", self.t.kind), json!({"kind":"case","core":self.t.kind}));
                    }
                }
                Ok(Err(e)) => self.ctx.violate(format!("after-hostile-calls:reopen-err:{}", ops::err_sig(&e)), format!("core {}: {e}", self.t.kind), json!({"kind":"case"})),
                Err(p) => self.ctx.violate(format!("after-hostile-calls:reopen-panic:{}", exec::panic_sig(&p)), p, json!({"kind":"case"})),
            }
        }
    }
}

fn model_from_observation(core: &mut Hypercore, old: &Model) -> Model {
    // after an accepted (possibly altered-but-legit) proof: take what the core reports as the new
    // reference for the *usability* probes only (C04 decides whether accepting was right)
    let info = core.info();
    let mut m = Model::new(old.writable);
    for i in 0..info.length {
        let g = exec::call(core.get(i)).ok().and_then(|r| r.ok()).flatten();
        m.sizes.push(g.as_ref().map(|b| b.len() as u64).unwrap_or_else(|| old.sizes.get(i as usize).copied().unwrap_or(0)));
        m.blocks.push(g);
    }
    // byte length cannot be reconstructed for blocks not held: keep the reported one consistent
    let known: u64 = m.sizes.iter().sum();
    if known != info.byte_length && !m.sizes.is_empty() {
        let last = m.sizes.len() - 1;
        // distribute the difference onto an unheld block so that the totals agree
        if let Some(ix) = (0..=last).rev().find(|i| m.blocks[*i].is_none()) {
            m.sizes[ix] = (m.sizes[ix] as i128 + info.byte_length as i128 - known as i128).max(0) as u64;
        }
    }
    m
}

fn run_case(ctx: &mut Ctx, id: u64) {
    let mut r = ctx.case_rng(id);
    let fixed = N_CORES * N_MODES;
    let (k, mode) = if id < fixed { (id / N_MODES, id % N_MODES) } else { (r.below(N_CORES), 3 + r.below(2)) };
    // whatever the node cache does (keeps, evicts, forgets at once) a call must end: the fixed
    // cases run without cache, the random ones with every cache mode in turn
    let cache = if id < fixed { CacheMode::None } else { ops::CACHE_MODES[(id % 4) as usize] };
    ctx.count(&format!("cache:{cache:?}"));
    let t = match build_target(k, &mut r, cache) {
        Ok(t) => t,
        Err(f) => {
            ctx.count("target_unusable");
            ctx.notes.push(format!("target {k} could not be built: {} {}", f.sig, f.detail.chars().take(120).collect::<String>()));
            return;
        }
    };
    ctx.count(&format!("core_kind:{}", t.kind));
    let l = t.model.length();
    let bl = t.model.byte_length();
    let big = l >= 1000;
    let mut d = Driver { ctx, t, calls: 0 };
    let idx_b = boundary_values(l);
    let idx_h = boundary_values(2 * l);
    let nodes_v = [0u64, 1, 2, l.max(3), 1 << 32, (1 << 40) - 1];
    let byt = boundary_values(bl);
    let mut ups: Vec<Option<RequestUpgrade>> = vec![None];
    for s in &idx_b {
        for ln in &idx_b {
            ups.push(Some(RequestUpgrade { start: *s, length: *ln }));
        }
    }
    let ups_small: Vec<Option<RequestUpgrade>> = vec![
        None,
        Some(RequestUpgrade { start: 0, length: l }),
        Some(RequestUpgrade { start: 0, length: l.max(1) }),
        Some(RequestUpgrade { start: l / 2, length: l - l / 2 }),
        Some(RequestUpgrade { start: l, length: 0 }),
        Some(RequestUpgrade { start: l.saturating_sub(1), length: 1 }),
        Some(RequestUpgrade { start: 0, length: 1 }),
        Some(RequestUpgrade { start: 1, length: l }),
    ];
    // the debug-build lane runs the same deterministic cases, thinned (it is ~10x slower)
    let stride = if big { 7 } else { 1 } * if d.ctx.debug_lane { 5 } else { 1 };
    match mode {
        0 | 1 => {
            // block x upgrade / hash x upgrade
            let idxs = if mode == 0 { &idx_b } else { &idx_h };
            let mut n = 0u64;
            for i in idxs {
                for nd in nodes_v {
                    for u in &ups {
                        n += 1;
                        if n % stride != 0 {
                            continue;
                        }
                        for v in [*i, nd, u.as_ref().map(|u| u.start).unwrap_or(3), u.as_ref().map(|u| u.length).unwrap_or(3)] {
                            if let Some(tg) = tag(v, l) {
                                d.ctx.count(tg);
                            }
                        }
                        let rb = Some(RequestBlock { index: *i, nodes: nd });
                        let req = if mode == 0 {
                            Request { block: rb, hash: None, seek: None, upgrade: u.clone() }
                        } else {
                            Request { block: None, hash: rb, seek: None, upgrade: u.clone() }
                        };
                        d.req(&req);
                    }
                }
            }
        }
        2 => {
            // seek x (block | hash | none) x reduced upgrade
            for b in &byt {
                for u in &ups_small {
                    d.req(&Request { block: None, hash: None, seek: Some(RequestSeek { bytes: *b }), upgrade: u.clone() });
                    for i in &idx_b {
                        for nd in [0u64, 1, 2] {
                            d.req(&Request { block: Some(RequestBlock { index: *i, nodes: nd }), hash: None, seek: Some(RequestSeek { bytes: *b }), upgrade: u.clone() });
                            d.req(&Request { block: None, hash: Some(RequestBlock { index: *i * 2 + (nd % 2), nodes: nd }), seek: Some(RequestSeek { bytes: *b }), upgrade: u.clone() });
                        }
                    }
                }
            }
            // both block and hash present
            for i in &idx_b {
                d.req(&Request { block: Some(RequestBlock { index: *i, nodes: 0 }), hash: Some(RequestBlock { index: *i, nodes: 1 }), seek: None, upgrade: None });
            }
        }
        3 => {
            // random full tuples, incl. small in-range values
            for _ in 0..(if d.ctx.debug_lane { 800 } else { 4000 }) {
                let pick = |r: &mut Rng, bv: &Vec<u64>, lim: u64| -> u64 {
                    if r.chance(1, 2) {
                        *r.pick(bv)
                    } else {
                        r.below(lim.max(1) + 2)
                    }
                };
                let block = if r.chance(1, 2) { Some(RequestBlock { index: pick(&mut r, &idx_b, l), nodes: if r.chance(1, 2) { r.below(6) } else { *r.pick(&nodes_v) } }) } else { None };
                let hash = if r.chance(1, 3) { Some(RequestBlock { index: pick(&mut r, &idx_h, 2 * l), nodes: if r.chance(1, 2) { r.below(6) } else { *r.pick(&nodes_v) } }) } else { None };
                let seek = if r.chance(1, 3) { Some(RequestSeek { bytes: pick(&mut r, &byt, bl) }) } else { None };
                let upgrade = if r.chance(1, 2) { Some(RequestUpgrade { start: pick(&mut r, &idx_b, l), length: pick(&mut r, &idx_b, l) }) } else { None };
                d.req(&Request { block, hash, seek, upgrade });
            }
        }
        _ => {
            // proofs: alterations of honest proofs, then arbitrary ones
            let honest = std::mem::take(&mut d.t.honest);
            for (_req, p) in &honest {
                for alt in mutate::alterations(p, &mut r, 1) {
                    if let Some(q) = mutate::apply(p, &alt) {
                        d.proof(&q, &alt.kind());
                    }
                }
            }
            for (_req, p) in &honest {
                d.proof(p, "honest");
            }
            for _ in 0..(if d.ctx.debug_lane { 400 } else { 1500 }) {
                let q = mutate::arbitrary_proof(&mut r, l, bl);
                d.proof(&q, "arbitrary");
            }
            // honest proofs for the *writer-kind* targets: proofs made by the core itself
            if d.t.writer.is_none() && l > 0 {
                for i in idx_b.iter().filter(|i| **i < l) {
                    let req = Request { block: Some(RequestBlock { index: *i, nodes: 0 }), hash: None, seek: None, upgrade: None };
                    if let Ok(Ok(Some(p))) = create_proof(&mut d.t.core, &req) {
                        for alt in mutate::alterations(&p, &mut r, 1) {
                            if let Some(q) = mutate::apply(&p, &alt) {
                                d.proof(&q, &alt.kind());
                            }
                        }
                    }
                }
            }
        }
    }
    d.usability();
    let calls = d.calls;
    let kind = d.t.kind;
    d.ctx.add("calls", calls);
    let mode_name = ["block x upgrade", "hash x upgrade", "seek x block/hash x upgrade", "random tuples", "altered + arbitrary proofs"][mode as usize];
    d.ctx.count(&format!("mode:{mode_name}"));
    let _ = (kind, calls);
    let _ = gen::ALPHABET;
}
