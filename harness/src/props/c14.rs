//! C14 — behaviour and bytes are independent of storage backend and node cache.

use crate::backends::Backend;
use crate::exec;
use crate::framework::{out_dir, Ctx, Spec};
use crate::gen;
use crate::model::*;
use crate::ops::{self, keypair, CacheMode, Op, Sut};
use crate::props::c06;
use crate::repl::{self, Plan};
use crate::rng::Rng;
use hypercore::{Hypercore, HypercoreBuilder, PartialKeypair, RequestBlock, RequestSeek, RequestUpgrade, SigningKey};
use serde_json::{json, Value};
use std::path::PathBuf;

pub static SPEC: Spec = Spec {
    id: "C14",
    level: "exploration",
    fixed_cases: |_| 3 + 64,
    random_secs: |t| t.pick(15, 240),
    random_cap: |t| t.pick(100_000, 3_000_000),
    run_case,
    required: &[
        "golden_on_memory_backend",
        "golden_on_disk_backend",
        "golden_on_instrumented_backend",
        "config:memory:none",
        "config:memory:tiny",
        "config:instrumented:default",
        "config:instrumented:tiny",
        "config:disk:none",
        "config:disk:tiny",
        "config:disk-overwritten:none",
        "config:memory-overwritten:none",
        "disk_hole_punched",
        "disk_tail_truncated",
        "steps_compared",
        "replica_scripts",
        "scripts_with_hostile_requests",
        "scripts_with_altered_proofs",
    ],
    rule: "a case = one script (writer history from the C01 generators incl. clears that punch holes / truncate the tail, or a writer+replica replication script) executed under several configurations: backends {instrumented in-memory, real random-access-memory, real random-access-disk in a scratch directory (files read back from disk)} x node cache {off, default options, capacity of 2-3 nodes}; after EVERY step the call result, the full observation (info, has, get of every index) and the bytes of all four store files are compared with the reference configuration (instrumented backend, cache off): across backends results, observations and file bytes must be identical; across cache configurations results and observations must be identical; the five-step interop scenario must reproduce the JS-certified file hashes on every backend; thorough additionally compares per-case trace hashes against separate builds with the cache feature compiled out and with the sparse feature off; distinct = script hash; evaluations = (script, configuration) runs",
    assumptions: &["disk backend runs with its default per-operation sync; punched holes read back as zeros"],
    exhaustive_note: "writer scripts: all symbol sequences of length 4 over the 8-symbol alphabet under every in-memory configuration; disk for a sample",
    hang_secs: 300,
};

fn open_core(b: &Backend, key: Option<PartialKeypair>, open: bool, cache: CacheMode) -> Result<Hypercore, String> {
    open_core_ow(b, key, open, cache, false)
}

pub fn open_core_ow(b: &Backend, key: Option<PartialKeypair>, open: bool, cache: CacheMode, overwrite: bool) -> Result<Hypercore, String> {
    let r = exec::call(async {
        let storage = b.storage_with(overwrite).await?;
        let mut bd = HypercoreBuilder::new(storage);
        if let Some(k) = key {
            bd = bd.key_pair(k);
        }
        if open {
            bd = bd.open(true);
        }
        #[cfg(feature = "cache")]
        match cache {
            CacheMode::None => {}
            CacheMode::Default => bd = bd.node_cache_options(hypercore::CacheOptionsBuilder::new()),
            CacheMode::Tiny => bd = bd.node_cache_options(hypercore::CacheOptionsBuilder::new().max_capacity(200)),
            CacheMode::Volatile => bd = bd.node_cache_options(hypercore::CacheOptionsBuilder::new().time_to_live(std::time::Duration::ZERO).max_capacity(400)),
        }
        #[cfg(not(feature = "cache"))]
        let _ = cache;
        bd.build().await
    });
    match r {
        Ok(Ok(c)) => Ok(c),
        Ok(Err(e)) => Err(format!("Err({})", ops::err_sig(&e))),
        Err(p) => Err(format!("panic({})", exec::panic_sig(&p))),
    }
}

#[derive(Clone, Debug)]
pub enum Step {
    W(Op),
    R(Plan),
    ReopenReplica,
    /// like R, but the writer's honest proof is altered (alteration chosen by the seed from the
    /// C04 battery) before the replica sees it: whatever the replica makes of it must not depend
    /// on the configuration
    RAlt(Plan, u64),
    /// an arbitrary (possibly ill-formed) request served by the writer: block (index, nodes),
    /// hash (index, nodes), seek bytes, upgrade (start, length)
    Hostile(Option<(u64, u64)>, Option<(u64, u64)>, Option<u64>, Option<(u64, u64)>),
}

impl Step {
    fn to_json(&self) -> Value {
        match self {
            Step::W(o) => json!({"w": o.to_json()}),
            Step::R(p) => json!({"r": p.to_json()}),
            Step::ReopenReplica => json!("reopen-replica"),
            Step::RAlt(p, a) => json!({"r-altered": p.to_json(), "alteration_seed": a}),
            Step::Hostile(b, h, s, u) => json!({"hostile": {"block": b, "hash": h, "seek": s, "upgrade": u}}),
        }
    }
}

#[derive(Clone, Debug, PartialEq)]
pub struct Trace {
    pub res: String,
    pub wobs: Option<Obs>,
    pub robs: Option<Obs>,
    pub wfiles: [u64; 4],
    pub rfiles: [u64; 4],
    pub wlens: [usize; 4],
}

/// File fingerprints. The data store is compared up to zero-filled holes (the property's own
/// wording): a zero-length write past the end extends the in-memory backends with zeros but
/// leaves the disk file short, which is a trailing hole.
fn fh(f: &crate::world::Files) -> [u64; 4] {
    let d = &f[1];
    let mut end = d.len();
    while end > 0 && d[end - 1] == 0 {
        end -= 1;
    }
    [crate::rng::fnv(&f[0]), crate::rng::fnv(&d[..end]), crate::rng::fnv(&f[2]), crate::rng::fnv(&f[3])]
}

fn apply_op(core: &mut Hypercore, op: &Op) -> String {
    let blocks = Sut::materialize(op);
    let r = match op {
        Op::Append(..) => exec::call(core.append(&blocks[0])).map(|r| r.map(|o| format!("{o:?}")).map_err(|e| ops::err_sig(&e))),
        Op::Batch(..) => exec::call(core.append_batch(&blocks)).map(|r| r.map(|o| format!("{o:?}")).map_err(|e| ops::err_sig(&e))),
        Op::Clear(s, e) => exec::call(core.clear(*s, *e)).map(|r| r.map(|_| "()".to_string()).map_err(|e| ops::err_sig(&e))),
        Op::Get(i) => exec::call(core.get(*i)).map(|r| r.map(|o| format!("{:?}", o.map(|b| (b.len(), crate::rng::fnv(&b))))).map_err(|e| ops::err_sig(&e))),
        Op::Has(i) => Ok(Ok(format!("{}", core.has(*i)))),
        Op::Info => Ok(Ok(format!("{:?}", core.info()))),
        Op::MakeReadOnly => exec::call(core.make_read_only()).map(|r| r.map(|o| format!("{o}")).map_err(|e| ops::err_sig(&e))),
        Op::Reopen => unreachable!(),
    };
    match r {
        Ok(Ok(s)) => format!("Ok({s})"),
        Ok(Err(e)) => format!("Err({e})"),
        Err(p) => format!("panic({})", exec::panic_sig(&p)),
    }
}

/// Execute a script under one configuration.
pub fn run_script(steps: &[Step], key: &SigningKey, wb: &Backend, rb: Option<&Backend>, cache: CacheMode) -> Vec<Trace> {
    run_script_ow(steps, key, wb, rb, cache, false)
}

/// `dirty`: the stores first receive an unrelated, longer core; the script's core is then created
/// with the overwrite flag, which must give exactly the behaviour and bytes of fresh stores.
pub fn run_script_ow(steps: &[Step], key: &SigningKey, wb: &Backend, rb: Option<&Backend>, cache: CacheMode, dirty: bool) -> Vec<Trace> {
    let mut out = vec![];
    if dirty {
        let other = ops::key_from_seed(0xD1D7);
        for b in [Some(wb), rb].into_iter().flatten() {
            if let Ok(mut c) = open_core(b, Some(keypair(&other, true)), false, CacheMode::None) {
                for i in 0..9u32 {
                    let _ = exec::call(c.append(&crate::rng::block_bytes(0x0F00_0000 + i, 700)));
                }
                let _ = exec::call(c.clear(2, 3));
            }
        }
    }
    let mut w = match open_core_ow(wb, Some(keypair(key, true)), false, cache, dirty) {
        Ok(c) => Some(c),
        Err(e) => {
            out.push(Trace { res: format!("writer build: {e}"), wobs: None, robs: None, wfiles: [0; 4], rfiles: [0; 4], wlens: [0; 4] });
            return out;
        }
    };
    let mut rp = rb.and_then(|b| open_core_ow(b, Some(keypair(key, false)), false, cache, dirty).ok());
    for st in steps {
        let res = match st {
            Step::W(Op::Reopen) => {
                w = None;
                match open_core(wb, None, true, cache) {
                    Ok(c) => {
                        w = Some(c);
                        "reopened".to_string()
                    }
                    Err(e) => e,
                }
            }
            Step::W(op) => match w.as_mut() {
                Some(c) => apply_op(c, op),
                None => "no-core".into(),
            },
            Step::ReopenReplica => {
                rp = None;
                match rb.map(|b| open_core(b, None, true, cache)) {
                    Some(Ok(c)) => {
                        rp = Some(c);
                        "reopened".to_string()
                    }
                    Some(Err(e)) => e,
                    None => "no-replica".into(),
                }
            }
            Step::Hostile(b, h, sk, u) => match w.as_mut() {
                Some(wc) => {
                    let r = exec::call(wc.create_proof(
                        b.map(|(i, n)| RequestBlock { index: i, nodes: n }),
                        h.map(|(i, n)| RequestBlock { index: i, nodes: n }),
                        sk.map(|x| RequestSeek { bytes: x }),
                        u.map(|(s0, l)| RequestUpgrade { start: s0, length: l }),
                    ));
                    match r {
                        Ok(Ok(Some(p))) => format!("hostile proof#{:x}", crate::rng::fnv(format!("{p:?}").as_bytes())),
                        Ok(Ok(None)) => "hostile None".to_string(),
                        Ok(Err(e)) => format!("hostile Err({})", ops::err_sig(&e)),
                        Err(pn) => format!("hostile panic({})", exec::panic_sig(&pn)),
                    }
                }
                None => "no-core".into(),
            },
            Step::R(plan) => match (w.as_mut(), rp.as_mut()) {
                (Some(wc), Some(rc)) => replica_round(wc, rc, plan, None, cache),
                _ => "no-core".into(),
            },
            Step::RAlt(plan, a) => match (w.as_mut(), rp.as_mut()) {
                (Some(wc), Some(rc)) => replica_round(wc, rc, plan, Some(*a), cache),
                _ => "no-core".into(),
            },
        };
        let wf = wb.files();
        let rf = rb.map(|b| b.files()).unwrap_or_default();
        out.push(Trace {
            res,
            wobs: w.as_mut().map(|c| observe(c, 48)),
            robs: rp.as_mut().map(|c| observe(c, 48)),
            wfiles: fh(&wf),
            rfiles: fh(&rf),
            wlens: [wf[0].len(), wf[1].len(), wf[2].len(), wf[3].len()],
        });
    }
    out
}

/// One request/proof round between writer and replica; `alt`: alter the honest proof first.
fn replica_round(wc: &mut Hypercore, rc: &mut Hypercore, plan: &Plan, alt: Option<u64>, cache: CacheMode) -> String {
    let len = rc.info().length;
    let mut block = None;
    let mut hash = None;
    let mut s = String::new();
    if let Some(i) = plan.block {
        match exec::call(rc.missing_nodes(i)) {
            Ok(Ok(n)) => block = Some(RequestBlock { index: i, nodes: n }),
            other => s = format!("missing_nodes:{:?}", other.map(|x| x.map_err(|e| ops::err_sig(&e)))),
        }
    }
    if let Some(j) = plan.hash {
        match exec::call(rc.missing_nodes_from_merkle_tree_index(j)) {
            Ok(Ok(n)) => hash = Some(RequestBlock { index: j, nodes: n }),
            other => s = format!("missing_nodes:{:?}", other.map(|x| x.map_err(|e| ops::err_sig(&e)))),
        }
    }
    if !s.is_empty() {
        return s;
    }
    let seek = plan.seek.map(|b| RequestSeek { bytes: b });
    let up = plan.upgrade.map(|l| RequestUpgrade { start: len, length: l });
    match exec::call(wc.create_proof(block.clone(), hash.clone(), seek, up)) {
        Ok(Ok(Some(p))) => {
            let mut p = p;
            let mut how = String::new();
            if let Some(a) = alt {
                let mut ar = Rng::new(a);
                let alts = crate::mutate::alterations(&p, &mut ar, 1);
                if alts.is_empty() {
                    return "no-alteration".into();
                }
                let alt = &alts[(a % alts.len() as u64) as usize];
                match crate::mutate::apply(&p, alt) {
                    Some(q) => {
                        how = format!(" altered({})", alt.kind());
                        p = q;
                    }
                    None => return "no-alteration".into(),
                }
            }
            let ph = crate::rng::fnv(format!("{p:?}").as_bytes());
            if std::env::var("HC_DEBUG_PROOFS").is_ok() {
                eprintln!("[{:?}] plan {:?} -> proof {:?}", cache, plan, p);
            }
            match exec::call(rc.verify_and_apply_proof(&p)) {
                Ok(Ok(b)) => format!("req({block:?},{hash:?}) proof#{ph:x}{how} applied={b}"),
                Ok(Err(e)) => format!("req({block:?},{hash:?}) proof#{ph:x}{how} Err({})", ops::err_sig(&e)),
                Err(pn) => format!("verify panic({})", exec::panic_sig(&pn)),
            }
        }
        Ok(Ok(None)) => "proof=None".to_string(),
        Ok(Err(e)) => format!("create_proof Err({})", ops::err_sig(&e)),
        Err(pn) => format!("create_proof panic({})", exec::panic_sig(&pn)),
    }
}

pub fn trace_hash(t: &[Trace]) -> u64 {
    crate::rng::fnv(format!("{t:?}").as_bytes())
}

fn compare(ctx: &mut Ctx, reference: &[Trace], other: &[Trace], refname: &str, name: &str, bytes_too: bool, steps: &[Step]) -> bool {
    for (i, (a, b)) in reference.iter().zip(other.iter()).enumerate() {
        ctx.count("steps_compared");
        let what = if a.res != b.res {
            Some(("result", format!("{} vs {}", a.res, b.res)))
        } else if a.wobs != b.wobs {
            Some(("writer-observation", format!("{:?} vs {:?}", a.wobs.as_ref().map(ops::short_obs), b.wobs.as_ref().map(ops::short_obs))))
        } else if a.robs != b.robs {
            Some(("replica-observation", format!("{:?} vs {:?}", a.robs.as_ref().map(ops::short_obs), b.robs.as_ref().map(ops::short_obs))))
        } else if bytes_too && (a.wfiles != b.wfiles || a.rfiles != b.rfiles) {
            let which = (0..4).find(|k| a.wfiles[*k] != b.wfiles[*k]).map(|k| format!("writer {}", crate::world::STORE_NAMES[k])).or_else(|| (0..4).find(|k| a.rfiles[*k] != b.rfiles[*k]).map(|k| format!("replica {}", crate::world::STORE_NAMES[k]))).unwrap_or_default();
            Some(("file-bytes", format!("{which} differs (writer file sizes {:?} vs {:?})", a.wlens, b.wlens)))
        } else {
            None
        };
        if let Some((kind, d)) = what {
            ctx.violate(
                format!("differs:{kind}:{}-vs-{}", refname.split(':').next().unwrap_or(""), name),
                format!("step #{i} {:?}: {refname} vs {name}: {d}", steps[i].to_json()),
                json!({"kind":"script","steps": steps.iter().map(|s| s.to_json()).collect::<Vec<_>>(), "first_differing_step": i, "configs":[refname, name]}),
            );
            return false;
        }
    }
    if reference.len() != other.len() {
        ctx.violate(format!("differs:trace-length:{name}"), format!("{} vs {} steps", reference.len(), other.len()), json!({"kind":"script"}));
        return false;
    }
    true
}

fn scratch_dir(tag: &str) -> PathBuf {
    out_dir().join("scratch").join(format!("c14-{}-{}", std::process::id(), tag))
}

/// A request with fields around the interesting boundaries (also ill-formed ones): whatever the
/// answer is, it must not depend on the configuration.
pub fn hostile_step(r: &mut Rng, len: u64, bytes: u64) -> Step {
    let pick = |r: &mut Rng, l: u64| -> u64 {
        match r.below(5) {
            0 => l,
            1 => l.saturating_sub(1),
            2 => l + 1,
            _ => r.below(l + 2),
        }
    };
    let b = if r.chance(1, 2) { Some((pick(r, len), r.below(4))) } else { None };
    let h = if b.is_none() && r.chance(1, 2) { Some((pick(r, 2 * len), r.below(4))) } else { None };
    let s = if r.chance(1, 2) { Some(pick(r, bytes)) } else { None };
    let u = if r.chance(1, 2) { Some((pick(r, len), pick(r, len))) } else { None };
    Step::Hostile(b, h, s, u)
}

pub fn writer_script(r: &mut Rng, ops: Vec<Op>) -> Vec<Step> {
    // after reads / appends the writer is also asked for proofs (well- and ill-formed requests)
    let mut steps = vec![];
    let (mut len, mut bytes) = (0u64, 0u64);
    for op in ops {
        match &op {
            Op::Append(_, l) => {
                len += 1;
                bytes += *l as u64;
            }
            Op::Batch(b) => {
                len += b.len() as u64;
                bytes += b.iter().map(|x| x.1 as u64).sum::<u64>();
            }
            _ => {}
        }
        steps.push(Step::W(op));
        if len > 0 && r.chance(1, 4) {
            steps.push(hostile_step(r, len, bytes));
        }
    }
    steps
}

/// Generate a replication script against the model (plans depend only on the models).
pub fn replica_script(r: &mut Rng) -> Vec<Step> {
    let mut steps = vec![];
    let mut wm = Model::new(true);
    let mut rm = Model::new(false);
    let mut tag = 1u32;
    for _ in 0..(1 + r.below(3)) {
        for _ in 0..(1 + r.below(7)) {
            let op = Op::Append(tag, gen::rand_block_len(r, 300));
            tag += 1;
            wm.append_batch(&Sut::materialize(&op));
            steps.push(Step::W(op));
        }
        if r.chance(1, 3) {
            let s = r.below(wm.length());
            let op = Op::Clear(s, s + 1 + r.below(2));
            if let Op::Clear(a, b) = op {
                wm.clear(a, b);
            }
            steps.push(Step::W(op));
        }
        for _ in 0..(1 + r.below(7)) {
            let plan = repl::random_plan(r, rm.length(), wm.length(), &wm, &rm);
            if plan == Plan::default() {
                continue;
            }
            // model effect (honest proof accepted unless the block is cleared on the writer)
            let cleared = plan.block.map(|b| wm.get(b).is_none()).unwrap_or(false);
            if !cleared {
                if plan.upgrade.is_some() {
                    let wl = wm.length() as usize;
                    rm.sizes = wm.sizes[..wl].to_vec();
                    while rm.blocks.len() < wl {
                        rm.blocks.push(None);
                    }
                }
                if let Some(b) = plan.block {
                    if (b as usize) < rm.blocks.len() {
                        rm.blocks[b as usize] = wm.get(b).cloned();
                    }
                }
            }
            // sometimes the replica is first offered an altered version of the same proof,
            // sometimes right after a reopen (nothing cached, nothing unflushed)
            if r.chance(1, 4) {
                if r.chance(1, 3) {
                    steps.push(Step::ReopenReplica);
                }
                steps.push(Step::RAlt(plan.clone(), r.next_u64()));
            }
            steps.push(Step::R(plan));
            if r.chance(1, 6) {
                steps.push(Step::ReopenReplica);
            }
            if r.chance(1, 3) {
                steps.push(hostile_step(r, wm.length(), wm.byte_length()));
            }
        }
    }
    steps
}

fn run_configs(ctx: &mut Ctx, steps: &[Step], key_seed: u64, with_disk: bool, tag: &str) {
    let key = ops::key_from_seed(key_seed);
    let has_replica = steps.iter().any(|s| matches!(s, Step::R(_) | Step::RAlt(..) | Step::ReopenReplica));
    if steps.iter().any(|s| matches!(s, Step::Hostile(..))) {
        ctx.count("scripts_with_hostile_requests");
    }
    let nalt = steps.iter().filter(|s| matches!(s, Step::RAlt(..))).count() as u64;
    if nalt > 0 {
        ctx.count("scripts_with_altered_proofs");
        ctx.add("altered_proofs_offered_per_config", nalt);
    }
    let mk = |kind: u8, which: &str| -> Backend {
        match kind {
            0 => Backend::new_world(),
            1 => Backend::new_memory(),
            _ => Backend::new_disk(scratch_dir(&format!("{tag}-{which}"))),
        }
    };
    let run = |kind: u8, cache: CacheMode| -> Vec<Trace> {
        let dirty = kind >= 10;
        let kind = kind % 10;
        let wb = mk(kind, "w");
        let rb = if has_replica { Some(mk(kind, "r")) } else { None };
        let t = run_script_ow(steps, &key, &wb, rb.as_ref(), cache, dirty);
        wb.cleanup();
        if let Some(b) = &rb {
            b.cleanup();
        }
        t
    };
    let reference = run(0, CacheMode::None);
    ctx.eval(Some(crate::rng::fnv(format!("{:?}", steps.iter().map(|s| s.to_json()).collect::<Vec<_>>()).as_bytes())));
    let mut configs: Vec<(u8, CacheMode, &str)> = vec![
        (0, CacheMode::Default, "instrumented:default"),
        (0, CacheMode::Tiny, "instrumented:tiny"),
        (0, CacheMode::Volatile, "instrumented:volatile"),
        (1, CacheMode::None, "memory:none"),
        (1, CacheMode::Tiny, "memory:tiny"),
    ];
    // stores that held another core before and are reset through the overwrite flag
    configs.push((10, CacheMode::None, "instrumented-overwritten:none"));
    configs.push((11, CacheMode::None, "memory-overwritten:none"));
    if with_disk {
        configs.push((2, CacheMode::None, "disk:none"));
        configs.push((2, CacheMode::Tiny, "disk:tiny"));
        configs.push((12, CacheMode::None, "disk-overwritten:none"));
    }
    for (kind, cache, name) in configs {
        let t = run(kind, cache);
        ctx.count(&format!("config:{name}"));
        ctx.count("config_runs");
        // across backends (same cache setting or not) bytes must be identical; across cache
        // settings only results and observations are claimed
        let bytes_too = cache == CacheMode::None;
        if !compare(ctx, &reference, &t, "instrumented:none", name, bytes_too, steps) {
            return;
        }
        if kind % 10 == 2 {
            // coverage: did this script punch holes / truncate on disk?
            let mut prev_len = 0usize;
            for (i, s) in steps.iter().enumerate() {
                if let Step::W(Op::Clear(..)) = s {
                    if t[i].wlens[1] < prev_len {
                        ctx.count("disk_tail_truncated");
                    } else {
                        ctx.count("disk_hole_punched");
                    }
                }
                prev_len = t[i].wlens[1];
            }
        }
    }
}

fn golden(ctx: &mut Ctx, kind: u64) {
    let key = SigningKey::from_bytes(&c06::TEST_SECRET);
    let b = match kind {
        0 => Backend::new_world(),
        1 => Backend::new_memory(),
        _ => Backend::new_disk(scratch_dir("golden")),
    };
    let name = b.name();
    let res = {
        let bref = &b;
        let key = key.clone();
        c06::golden_scenario(
            move |create| open_core(bref, if create { Some(keypair(&key, true)) } else { None }, !create, CacheMode::None),
            || bref.files(),
        )
    };
    b.cleanup();
    ctx.eval(None);
    match res {
        Ok(()) => ctx.count(&format!("golden_on_{name}_backend")),
        Err(e) => ctx.violate(format!("golden-hash-mismatch:{name}"), e, json!({"kind":"golden","backend":name})),
    }
}

/// Per-case trace hashes for cross-build comparison (cache feature off / sparse off builds).
pub fn tracehash_lines(seed: u64, n: u64) -> Vec<String> {
    let mut out = vec![];
    let rt = tokio::runtime::Builder::new_current_thread().build().unwrap();
    let _g = rt.enter();
    for id in 0..n {
        let mut r = Rng::new(seed ^ (id.wrapping_mul(0x9E37_79B9_7F4A_7C15)));
        let steps = if id % 3 == 2 {
            replica_script(&mut r)
        } else {
            let cfg = gen::RandCfg { max_ops: 25, reopen_pct: 12, clear_pct: 20, read_pct: 10, max_block: 5000, big_batch: 0, far_clear: false };
            let ops = gen::random_history(&mut r, &cfg);
            writer_script(&mut r, ops)
        };
        let key = ops::key_from_seed(1000 + id);
        let has_replica = steps.iter().any(|s| matches!(s, Step::R(_) | Step::RAlt(..) | Step::ReopenReplica));
        // memory backend, cache options given (ignored when the feature is compiled out)
        let wb = Backend::new_memory();
        let rb = if has_replica { Some(Backend::new_memory()) } else { None };
        let t = run_script(&steps, &key, &wb, rb.as_ref(), CacheMode::Tiny);
        let mut line = format!("{id} mem {:016x}", trace_hash(&t));
        if id % 8 == 0 {
            let wb = Backend::new_disk(scratch_dir(&format!("th{id}-w")));
            let rb = if has_replica { Some(Backend::new_disk(scratch_dir(&format!("th{id}-r")))) } else { None };
            let t = run_script(&steps, &key, &wb, rb.as_ref(), CacheMode::None);
            wb.cleanup();
            if let Some(b) = &rb {
                b.cleanup();
            }
            line.push_str(&format!(" disk {:016x}", trace_hash(&t)));
        }
        out.push(line);
    }
    out
}

fn run_case(ctx: &mut Ctx, id: u64) {
    let mut r = ctx.case_rng(id);
    let rt = tokio::runtime::Builder::new_current_thread().build().unwrap();
    let _g = rt.enter();
    if id < 3 {
        golden(ctx, id);
        return;
    }
    let alphabet: Vec<u8> = (0..gen::ALPHABET as u8).collect();
    if id < 67 {
        let prefix = gen::prefix_of_chunk(id - 3, 2, &alphabet);
        let mut seqs: Vec<Vec<u8>> = vec![];
        gen::for_each_sequence(&prefix, 4, &alphabet, |s| seqs.push(s.to_vec()));
        for (k, s) in seqs.iter().enumerate() {
            if let Some(ops) = gen::concretize(s) {
                ctx.count("exhaustive_scripts");
                let steps = writer_script(&mut r, ops);
                run_configs(ctx, &steps, 7, k == 5, &format!("{id}-{k}"));
                if ctx.violations.len() > 4 {
                    return;
                }
            }
        }
        return;
    }
    let with_disk = id % 6 == 0;
    let steps = if r.chance(1, 3) {
        ctx.count("replica_scripts");
        replica_script(&mut r)
    } else {
        ctx.count("writer_scripts");
        let cfg = gen::RandCfg {
            max_ops: if with_disk { 20 } else { 40 },
            reopen_pct: 12,
            clear_pct: 22,
            read_pct: 10,
            max_block: if r.chance(1, 3) { 12288 } else { 700 },
            big_batch: if r.chance(1, 10) && !with_disk { 300 } else { 0 },
            far_clear: false,
        };
        let ops = gen::random_history(&mut r, &cfg);
        writer_script(&mut r, ops)
    };
    let ks = r.next_u64();
    run_configs(ctx, &steps, ks, with_disk, &format!("{id}"));
    if id % 211 == 0 {
        ctx.sample(|| json!({"kind":"script","steps": steps.iter().take(12).map(|s| s.to_json()).collect::<Vec<_>>(), "disk": with_disk}));
    }
}
