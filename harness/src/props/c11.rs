//! C11 — wire messages round-trip exactly and match the compact-encoding spec.

use crate::exec;
use crate::framework::{Ctx, Spec};
use crate::refimpl::{enc_buf, enc_uint};
use crate::rng::Rng;
use compact_encoding::CompactEncoding;
use hypercore::{DataBlock, DataHash, DataSeek, DataUpgrade, Node, RequestBlock, RequestSeek, RequestUpgrade};
use merkle_tree_stream::Node as NodeTrait;
use serde_json::json;

pub static SPEC: Spec = Spec {
    id: "C11",
    level: "exploration",
    fixed_cases: |_| 8 * 16,
    random_secs: |t| t.pick(8, 120),
    random_cap: |t| t.pick(200_000, 5_000_000),
    run_case,
    required: &[
        "type:Node",
        "type:RequestBlock",
        "type:RequestSeek",
        "type:RequestUpgrade",
        "type:DataBlock",
        "type:DataHash",
        "type:DataSeek",
        "type:DataUpgrade",
        "prefixes_decoded",
        "int_at_2^64-1",
        "int_at_253",
        "int_at_65536",
        "int_at_2^32",
        "bytes_len_300",
        "bytes_len_253",
        "nodes_len_8",
        "nodes_len_0",
    ],
    rule: "a case = a slice of the value space of one of the 8 protocol message types: integers from {0,1,252,253,254,65535,65536,2^32-1,2^32,2^64-1} as full cross products per type, byte strings of every length 0..300, node lists of every length 0..8, plus seeded-random values; for each value: encoded_size() == number of bytes written, bytes == an independent compact-encoding of the fields in protocol order (refimpl), encoding into an oversized pre-filled buffer leaves exactly the unused tail untouched and returns it, decode(bytes||junk) returns the original value (public fields, Node::{index,hash,len}) and junk, and decoding EVERY strict prefix returns Err (never Ok, never a panic); run in the release and in an overflow-checked debug build; distinct = hash of the encoded bytes",
    assumptions: &["the independent encoder is refimpl::{enc_uint, enc_buf} (1 byte <= 0xfc, fd+u16, fe+u32, ff+u64 little endian; buffer = length + bytes; array = count + elements)"],
    exhaustive_note: "integer boundary cross products, all byte-string lengths 0..300 and all node-list lengths 0..8 are complete per type",
    hang_secs: 120,
};

const INTS: [u64; 10] = [0, 1, 252, 253, 254, 65535, 65536, 0xffff_ffff, 0x1_0000_0000, u64::MAX];

fn ref_node(o: &mut Vec<u8>, n: &Node) {
    enc_uint(o, n.index());
    enc_uint(o, n.len());
    o.extend_from_slice(n.hash());
}
fn ref_nodes(o: &mut Vec<u8>, v: &[Node]) {
    enc_uint(o, v.len() as u64);
    for n in v {
        ref_node(o, n);
    }
}

fn node_eq(a: &Node, b: &Node) -> bool {
    a.index() == b.index() && a.len() == b.len() && a.hash() == b.hash()
}
fn nodes_eq(a: &[Node], b: &[Node]) -> bool {
    a.len() == b.len() && a.iter().zip(b).all(|(x, y)| node_eq(x, y))
}

struct Chk<'a> {
    ctx: &'a mut Ctx,
}

impl<'a> Chk<'a> {
    fn int_cov(&mut self, v: u64) {
        match v {
            u64::MAX => self.ctx.count("int_at_2^64-1"),
            253 => self.ctx.count("int_at_253"),
            65536 => self.ctx.count("int_at_65536"),
            0x1_0000_0000 => self.ctx.count("int_at_2^32"),
            _ => {}
        }
    }
    /// generic check; `eq` compares a decoded value with the original through public fields
    fn check<T: CompactEncoding + std::fmt::Debug>(&mut self, name: &str, v: &T, expected: &[u8], eq: impl Fn(&T, &T) -> bool) {
        self.ctx.count(&format!("type:{name}"));
        self.ctx.eval(Some(crate::rng::fnv(expected) ^ crate::rng::fnv(name.as_bytes())));
        let bad = |ctx: &mut Ctx, what: &str, detail: String| {
            ctx.violate(format!("{name}:{what}"), detail, json!({"kind":"value","type":name,"value":format!("{v:?}").chars().take(400).collect::<String>()}));
        };
        // encoded_size
        let size = match exec::guarded(|| v.encoded_size()) {
            Ok(Ok(s)) => s,
            Ok(Err(e)) => return bad(self.ctx, "encoded_size-err", format!("{e}")),
            Err(p) => return bad(self.ctx, "encoded_size-panic", p),
        };
        if size != expected.len() {
            return bad(self.ctx, "encoded_size-mismatch", format!("encoded_size() = {size}, independent encoding has {} bytes", expected.len()));
        }
        // encode into an oversized, pre-filled buffer
        let extra = 7;
        let mut buf = vec![0xAAu8; size + extra];
        let rest_len = match exec::guarded(|| v.encode(&mut buf).map(|r| r.len())) {
            Ok(Ok(n)) => n,
            Ok(Err(e)) => return bad(self.ctx, "encode-err", format!("{e}")),
            Err(p) => return bad(self.ctx, "encode-panic", p),
        };
        if rest_len != extra {
            return bad(self.ctx, "encode-remainder", format!("encode left {rest_len} bytes, expected {extra}"));
        }
        if &buf[..size] != expected {
            let pos = buf[..size].iter().zip(expected).position(|(a, b)| a != b).unwrap_or(0);
            return bad(self.ctx, "bytes-differ-from-spec", format!("first difference at byte {pos}: got {:02x?} expected {:02x?}", &buf[pos..(pos + 8).min(size)], &expected[pos..(pos + 8).min(size)]));
        }
        if buf[size..].iter().any(|b| *b != 0xAA) {
            return bad(self.ctx, "encode-wrote-past-announced-size", "tail of the oversized buffer was modified".into());
        }
        // an exactly sized buffer works, a buffer one byte short errors
        let mut exact = vec![0u8; size];
        match exec::guarded(|| v.encode(&mut exact).map(|r| r.len())) {
            Ok(Ok(0)) => {}
            other => return bad(self.ctx, "encode-exact-buffer", format!("{other:?}")),
        }
        if size > 0 {
            let mut short = vec![0u8; size - 1];
            match exec::guarded(|| v.encode(&mut short).map(|r| r.len())) {
                Ok(Err(_)) => {}
                Ok(Ok(_)) => return bad(self.ctx, "encode-short-buffer-ok", "encoding into a buffer one byte too short succeeded".into()),
                Err(p) => return bad(self.ctx, "encode-short-buffer-panic", p),
            }
        }
        // decode(bytes || junk)
        let junk = [0x01u8, 0xfd, 0x00];
        let mut wire = expected.to_vec();
        wire.extend_from_slice(&junk);
        match exec::guarded(|| T::decode(&wire).map(|(d, rest)| (eq(&d, v), rest.to_vec()))) {
            Ok(Ok((true, rest))) if rest == junk => {}
            Ok(Ok((same, rest))) => return bad(self.ctx, "decode-mismatch", format!("decoded value equal: {same}, remainder {rest:02x?} (expected {junk:02x?})")),
            Ok(Err(e)) => return bad(self.ctx, "decode-err", format!("{e}")),
            Err(p) => return bad(self.ctx, "decode-panic", p),
        }
        match exec::guarded(|| T::decode(expected).map(|(d, rest)| (eq(&d, v), rest.len()))) {
            Ok(Ok((true, 0))) => {}
            other => return bad(self.ctx, "decode-exact", format!("{other:?}")),
        }
        if expected.len() > 40 && expected.len() < 140 && crate::rng::fnv(expected) % 4001 == 7 {
            let hex: String = expected.iter().map(|b| format!("{b:02x}")).collect();
            self.ctx.sample(|| json!({"type":name,"value":format!("{v:?}").chars().take(300).collect::<String>(),"bytes":hex,"encoded_size":size,"prefixes_checked":expected.len()}));
        }
        // every strict prefix errors
        for cut in 0..expected.len() {
            self.ctx.count("prefixes_decoded");
            match exec::guarded(|| T::decode(&expected[..cut]).map(|(_, rest)| rest.len())) {
                Ok(Err(_)) => {}
                Ok(Ok(r)) => return bad(self.ctx, "prefix-decoded-ok", format!("decoding the {cut}-byte prefix of a {}-byte encoding succeeded (remainder {r})", expected.len())),
                Err(p) => return bad(self.ctx, "prefix-decode-panic", format!("prefix of {cut} bytes: {p}")),
            }
        }
    }
}

fn mk_node(r: &mut Rng, i: u64, l: u64) -> Node {
    Node::new(i, r.bytes(32), l)
}
fn mk_nodes(r: &mut Rng, n: usize) -> Vec<Node> {
    (0..n)
        .map(|k| {
            let i = if k % 3 == 0 { *r.pick(&INTS) } else { r.below(1000) };
            let l = if k % 4 == 1 { *r.pick(&INTS) } else { r.below(5000) };
            mk_node(r, i, l)
        })
        .collect()
}

fn do_node(c: &mut Chk, n: &Node) {
    let mut e = vec![];
    ref_node(&mut e, n);
    c.check("Node", n, &e, node_eq);
}
fn do_rb(c: &mut Chk, index: u64, nodes: u64) {
    let v = RequestBlock { index, nodes };
    let mut e = vec![];
    enc_uint(&mut e, index);
    enc_uint(&mut e, nodes);
    c.check("RequestBlock", &v, &e, |a, b| a == b);
}
fn do_rs(c: &mut Chk, bytes: u64) {
    let v = RequestSeek { bytes };
    let mut e = vec![];
    enc_uint(&mut e, bytes);
    c.check("RequestSeek", &v, &e, |a, b| a == b);
}
fn do_ru(c: &mut Chk, start: u64, length: u64) {
    let v = RequestUpgrade { start, length };
    let mut e = vec![];
    enc_uint(&mut e, start);
    enc_uint(&mut e, length);
    c.check("RequestUpgrade", &v, &e, |a, b| a == b);
}
fn do_db(c: &mut Chk, index: u64, value: Vec<u8>, nodes: Vec<Node>) {
    let mut e = vec![];
    enc_uint(&mut e, index);
    enc_buf(&mut e, &value);
    ref_nodes(&mut e, &nodes);
    let v = DataBlock { index, value, nodes };
    c.check("DataBlock", &v, &e, |a, b| a.index == b.index && a.value == b.value && nodes_eq(&a.nodes, &b.nodes));
}
fn do_dh(c: &mut Chk, index: u64, nodes: Vec<Node>) {
    let mut e = vec![];
    enc_uint(&mut e, index);
    ref_nodes(&mut e, &nodes);
    let v = DataHash { index, nodes };
    c.check("DataHash", &v, &e, |a, b| a.index == b.index && nodes_eq(&a.nodes, &b.nodes));
}
fn do_ds(c: &mut Chk, bytes: u64, nodes: Vec<Node>) {
    let mut e = vec![];
    enc_uint(&mut e, bytes);
    ref_nodes(&mut e, &nodes);
    let v = DataSeek { bytes, nodes };
    c.check("DataSeek", &v, &e, |a, b| a.bytes == b.bytes && nodes_eq(&a.nodes, &b.nodes));
}
fn do_du(c: &mut Chk, start: u64, length: u64, nodes: Vec<Node>, additional: Vec<Node>, signature: Vec<u8>) {
    let mut e = vec![];
    enc_uint(&mut e, start);
    enc_uint(&mut e, length);
    ref_nodes(&mut e, &nodes);
    ref_nodes(&mut e, &additional);
    enc_buf(&mut e, &signature);
    let v = DataUpgrade { start, length, nodes, additional_nodes: additional, signature };
    c.check("DataUpgrade", &v, &e, |a, b| a.start == b.start && a.length == b.length && nodes_eq(&a.nodes, &b.nodes) && nodes_eq(&a.additional_nodes, &b.additional_nodes) && a.signature == b.signature);
}

fn run_case(ctx: &mut Ctx, id: u64) {
    let mut r = ctx.case_rng(id);
    let thin = ctx.debug_lane;
    let mut c = Chk { ctx };
    if id < 128 {
        let ty = id / 16;
        let part = id % 16;
        match ty {
            0 => {
                // Node: int x int (split by part over the first int)
                for (k, i) in INTS.iter().enumerate() {
                    if k as u64 % 16 != part {
                        continue;
                    }
                    for l in INTS {
                        c.int_cov(*i);
                        c.int_cov(l);
                        let n = mk_node(&mut r, *i, l);
                        do_node(&mut c, &n);
                        do_node(&mut c, &Node::new(*i, vec![0u8; 32], l));
                        do_node(&mut c, &Node::new(*i, vec![0xffu8; 32], l));
                    }
                }
            }
            1 => {
                for (k, i) in INTS.iter().enumerate() {
                    if k as u64 % 16 != part {
                        continue;
                    }
                    for n in INTS {
                        c.int_cov(n);
                        do_rb(&mut c, *i, n);
                        do_ru(&mut c, *i, n);
                    }
                    do_rs(&mut c, *i);
                }
            }
            2 => {
                for i in INTS {
                    do_rs(&mut c, i);
                }
                for i in 0..400u64 {
                    if i % 16 == part {
                        do_rs(&mut c, i);
                        do_rs(&mut c, 65530 + i);
                        do_rs(&mut c, 0xffff_fff0 + i);
                    }
                }
            }
            3 => {
                // DataBlock: value of every length 0..300
                for len in 0..=300usize {
                    if len as u64 % 16 != part {
                        continue;
                    }
                    if len == 300 {
                        c.ctx.count("bytes_len_300");
                    }
                    if len == 253 {
                        c.ctx.count("bytes_len_253");
                    }
                    let v = r.bytes(len);
                    let n = (len % 9) as usize;
                    let idx = INTS[len % INTS.len()];
                    let nodes = mk_nodes(&mut r, n);
                    do_db(&mut c, idx, v, nodes);
                }
            }
            4 => {
                // node lists of every length 0..8 for DataHash / DataSeek
                for n in 0..=8usize {
                    if n == 8 {
                        c.ctx.count("nodes_len_8");
                    }
                    if n == 0 {
                        c.ctx.count("nodes_len_0");
                    }
                    for (k, i) in INTS.iter().enumerate() {
                        if (k + n) as u64 % 16 != part {
                            continue;
                        }
                        let nodes = mk_nodes(&mut r, n);
                        do_dh(&mut c, *i, nodes.clone());
                        do_ds(&mut c, *i, nodes);
                    }
                }
            }
            5 => {
                // DataUpgrade: int x int x node-list lengths
                for (k, s) in INTS.iter().enumerate() {
                    if k as u64 % 16 != part {
                        continue;
                    }
                    for l in INTS {
                        for n in [0usize, 1, 3, 8] {
                            for a in [0usize, 2, 8] {
                                let nodes = mk_nodes(&mut r, n);
                                let add = mk_nodes(&mut r, a);
                                let sig = r.bytes(64);
                                do_du(&mut c, *s, l, nodes, add, sig);
                            }
                        }
                    }
                }
            }
            6 => {
                // DataUpgrade: signature of every length 0..300
                for len in 0..=300usize {
                    if len as u64 % 16 != part {
                        continue;
                    }
                    let sig = r.bytes(len);
                    let nodes = mk_nodes(&mut r, len % 4);
                    let add = mk_nodes(&mut r, len % 3);
                    do_du(&mut c, len as u64, 1, nodes, add, sig);
                }
            }
            _ => {
                // DataBlock: int x node-list length x small values
                for (k, i) in INTS.iter().enumerate() {
                    if k as u64 % 16 != part {
                        continue;
                    }
                    for n in 0..=8usize {
                        for vl in [0usize, 1, 252, 253] {
                            let v = r.bytes(vl);
                            let nodes = mk_nodes(&mut r, n);
                            do_db(&mut c, *i, v, nodes);
                        }
                    }
                }
            }
        }
        return;
    }
    // seeded random values of every type
    let rounds = if thin { 40 } else { 200 };
    for _ in 0..rounds {
        let pick = |r: &mut Rng| -> u64 {
            match r.below(4) {
                0 => *r.pick(&INTS),
                1 => r.below(300),
                2 => r.next_u64() >> r.below(64),
                _ => r.below(1 << 20),
            }
        };
        let n1 = r.below(9) as usize;
        let n2 = r.below(9) as usize;
        let bl = r.below(301) as usize;
        match r.below(8) {
            0 => {
                let n = mk_node(&mut r, 0, 0);
                let n = Node::new(pick(&mut r), n.hash().to_vec(), pick(&mut r));
                do_node(&mut c, &n)
            }
            1 => {
                let (a, b) = (pick(&mut r), pick(&mut r));
                do_rb(&mut c, a, b)
            }
            2 => {
                let a = pick(&mut r);
                do_rs(&mut c, a)
            }
            3 => {
                let (a, b) = (pick(&mut r), pick(&mut r));
                do_ru(&mut c, a, b)
            }
            4 => {
                let a = pick(&mut r);
                let v = r.bytes(bl);
                let ns = mk_nodes(&mut r, n1);
                do_db(&mut c, a, v, ns)
            }
            5 => {
                let a = pick(&mut r);
                let ns = mk_nodes(&mut r, n1);
                do_dh(&mut c, a, ns)
            }
            6 => {
                let a = pick(&mut r);
                let ns = mk_nodes(&mut r, n1);
                do_ds(&mut c, a, ns)
            }
            _ => {
                let (a, b) = (pick(&mut r), pick(&mut r));
                let ns = mk_nodes(&mut r, n1);
                let ad = mk_nodes(&mut r, n2);
                let sg = r.bytes(if bl % 3 == 0 { 64 } else { bl });
                do_du(&mut c, a, b, ns, ad, sg)
            }
        }
    }
    // a node whose hash is not 32 bytes cannot be encoded: must be an error, not a panic
    let bad = Node::new(1, vec![1, 2, 3], 4);
    match exec::guarded(|| {
        let mut b = vec![0u8; 64];
        bad.encode(&mut b).map(|r| r.len())
    }) {
        Ok(Err(_)) => c.ctx.count("short_hash_node_encode_err"),
        Ok(Ok(_)) => c.ctx.count("short_hash_node_encoded"),
        Err(p) => c.ctx.violate("Node:encode-panic-on-short-hash".into(), p, json!({"kind":"value"})),
    }
}
