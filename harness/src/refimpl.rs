//! Independent reference implementation of the Hypercore v10 scheme and the JavaScript
//! on-disk layout. Written from the layout description (DESIGN.md appendix A); it does NOT
//! call into `hypercore`, `compact-encoding` or `flat-tree`. Primitives used: BLAKE2b-256
//! (`blake2`), Ed25519 verification (`ed25519_dalek`), own bitwise CRC-32.

use blake2::digest::consts::U32;
use blake2::{Blake2b, Digest};
use ed25519_dalek::{Signature, VerifyingKey};
use std::collections::BTreeMap;

type B2 = Blake2b<U32>;

// ---------------------------------------------------------------- crc32 (IEEE, bitwise)
pub fn crc32(data: &[u8]) -> u32 {
    let mut crc: u32 = 0xFFFF_FFFF;
    for &b in data {
        crc ^= b as u32;
        for _ in 0..8 {
            let m = (!(crc & 1)).wrapping_add(1);
            crc = (crc >> 1) ^ (0xEDB8_8320 & m);
        }
    }
    !crc
}

// ---------------------------------------------------------------- compact encoding
pub fn enc_uint(out: &mut Vec<u8>, v: u64) {
    if v <= 0xfc {
        out.push(v as u8);
    } else if v <= 0xffff {
        out.push(0xfd);
        out.extend_from_slice(&(v as u16).to_le_bytes());
    } else if v <= 0xffff_ffff {
        out.push(0xfe);
        out.extend_from_slice(&(v as u32).to_le_bytes());
    } else {
        out.push(0xff);
        out.extend_from_slice(&v.to_le_bytes());
    }
}
pub fn enc_buf(out: &mut Vec<u8>, b: &[u8]) {
    enc_uint(out, b.len() as u64);
    out.extend_from_slice(b);
}

pub struct Rd<'a> {
    pub b: &'a [u8],
    pub p: usize,
}
impl<'a> Rd<'a> {
    pub fn new(b: &'a [u8]) -> Self {
        Rd { b, p: 0 }
    }
    pub fn take(&mut self, n: usize) -> Option<&'a [u8]> {
        if self.p + n > self.b.len() {
            return None;
        }
        let s = &self.b[self.p..self.p + n];
        self.p += n;
        Some(s)
    }
    pub fn u8(&mut self) -> Option<u8> {
        self.take(1).map(|s| s[0])
    }
    pub fn uint(&mut self) -> Option<u64> {
        let f = self.u8()?;
        Some(match f {
            0xfd => u16::from_le_bytes(self.take(2)?.try_into().ok()?) as u64,
            0xfe => u32::from_le_bytes(self.take(4)?.try_into().ok()?) as u64,
            0xff => u64::from_le_bytes(self.take(8)?.try_into().ok()?),
            x => x as u64,
        })
    }
    pub fn buf(&mut self) -> Option<&'a [u8]> {
        let n = self.uint()? as usize;
        self.take(n)
    }
    pub fn rest(&self) -> &'a [u8] {
        &self.b[self.p..]
    }
}

// ---------------------------------------------------------------- flat tree arithmetic
pub fn ft_depth(i: u64) -> u32 {
    (!i).trailing_zeros()
}
pub fn ft_offset(i: u64) -> u64 {
    let d = ft_depth(i);
    if d == 0 {
        i / 2
    } else {
        i >> (d + 1)
    }
}
pub fn ft_index(depth: u32, offset: u64) -> u64 {
    (offset << (depth + 1)) | ((1u64 << depth) - 1)
}
pub fn ft_parent(i: u64) -> u64 {
    let d = ft_depth(i);
    ft_index(d + 1, ft_offset(i) >> 1)
}
pub fn ft_sibling(i: u64) -> u64 {
    let d = ft_depth(i);
    ft_index(d, ft_offset(i) ^ 1)
}
pub fn ft_children(i: u64) -> Option<(u64, u64)> {
    let d = ft_depth(i);
    if d == 0 {
        return None;
    }
    let o = ft_offset(i);
    Some((ft_index(d - 1, o * 2), ft_index(d - 1, o * 2 + 1)))
}
/// leftmost / rightmost leaf (flat index) below node i
pub fn ft_span(i: u64) -> (u64, u64) {
    let d = ft_depth(i);
    let o = ft_offset(i);
    let w = 1u64 << d; // leaves below
    (2 * o * w, 2 * (o * w + w - 1))
}
/// Roots (flat indices) of a log with `length` blocks.
pub fn ft_roots(length: u64) -> Vec<u64> {
    let mut roots = vec![];
    let mut start: u64 = 0; // first block not yet covered
    let mut rem = length;
    while rem > 0 {
        let d = 63 - rem.leading_zeros(); // largest power of two <= rem
        let w = 1u64 << d;
        roots.push(ft_index(d, start / w));
        start += w;
        rem -= w;
    }
    roots
}

// ---------------------------------------------------------------- hashes
pub fn h_leaf(data: &[u8]) -> [u8; 32] {
    let mut h = B2::new();
    h.update([0u8]);
    h.update((data.len() as u64).to_le_bytes());
    h.update(data);
    h.finalize().into()
}
pub fn h_parent(lsize: u64, lhash: &[u8], rsize: u64, rhash: &[u8]) -> [u8; 32] {
    let mut h = B2::new();
    h.update([1u8]);
    h.update((lsize + rsize).to_le_bytes());
    h.update(lhash);
    h.update(rhash);
    h.finalize().into()
}
/// hash of the root set: type 2, then per root hash ‖ LE64(index) ‖ LE64(size)
pub fn h_roots(roots: &[(u64, u64, [u8; 32])]) -> [u8; 32] {
    let mut h = B2::new();
    h.update([2u8]);
    for (idx, size, hash) in roots {
        h.update(hash);
        h.update(idx.to_le_bytes());
        h.update(size.to_le_bytes());
    }
    h.finalize().into()
}
pub fn tree_namespace() -> [u8; 32] {
    let mut h = B2::new();
    h.update(b"hypercore");
    let ns: [u8; 32] = h.finalize().into();
    let mut h = B2::new();
    h.update(ns);
    h.update([0u8]);
    h.finalize().into()
}
pub fn signable(root_hash: &[u8; 32], length: u64, fork: u64) -> Vec<u8> {
    let mut v = Vec::with_capacity(80);
    v.extend_from_slice(&tree_namespace());
    v.extend_from_slice(root_hash);
    v.extend_from_slice(&length.to_le_bytes());
    v.extend_from_slice(&fork.to_le_bytes());
    v
}
pub fn verify_sig(pk: &[u8; 32], msg: &[u8], sig: &[u8]) -> bool {
    let Ok(vk) = VerifyingKey::from_bytes(pk) else { return false };
    let Ok(sig) = Signature::from_slice(sig) else { return false };
    vk.verify_strict(msg, &sig).is_ok()
}

pub const DEFAULT_NAMESPACE: [u8; 32] = [
    0x41, 0x44, 0xEE, 0xA5, 0x31, 0xE4, 0x83, 0xD5, 0x4E, 0x0C, 0x14, 0xF4, 0xCA, 0x68, 0xE0, 0x64,
    0x4F, 0x35, 0x53, 0x43, 0xFF, 0x6F, 0xCB, 0x0F, 0x00, 0x52, 0x00, 0xE1, 0x2C, 0xD7, 0x47, 0xCB,
];

// ---------------------------------------------------------------- reference Merkle tree
#[derive(Clone, Debug, Default)]
pub struct RefTree {
    /// flat index -> (size, hash) for every full node
    pub nodes: BTreeMap<u64, (u64, [u8; 32])>,
    pub length: u64,
    pub byte_length: u64,
}

impl RefTree {
    pub fn from_blocks<'a>(blocks: impl Iterator<Item = &'a [u8]>) -> RefTree {
        let mut t = RefTree::default();
        for b in blocks {
            t.append(b);
        }
        t
    }
    /// from sizes+leaf hashes only (payload unknown, e.g. cleared)
    pub fn append(&mut self, data: &[u8]) {
        self.append_leaf(data.len() as u64, h_leaf(data));
    }
    pub fn append_leaf(&mut self, size: u64, hash: [u8; 32]) {
        let mut idx = 2 * self.length;
        self.nodes.insert(idx, (size, hash));
        self.length += 1;
        self.byte_length += size;
        // complete parents while idx is a right child whose sibling exists
        loop {
            let off = ft_offset(idx);
            if off & 1 == 0 {
                break;
            }
            let sib = ft_sibling(idx);
            let (Some(l), Some(r)) = (self.nodes.get(&sib).cloned(), self.nodes.get(&idx).cloned()) else { break };
            let p = ft_parent(idx);
            self.nodes.insert(p, (l.0 + r.0, h_parent(l.0, &l.1, r.0, &r.1)));
            idx = p;
        }
    }
    pub fn roots_at(&self, length: u64) -> Vec<(u64, u64, [u8; 32])> {
        ft_roots(length)
            .into_iter()
            .map(|i| {
                let n = self.nodes[&i];
                (i, n.0, n.1)
            })
            .collect()
    }
    pub fn root_hash_at(&self, length: u64) -> [u8; 32] {
        h_roots(&self.roots_at(length))
    }
    pub fn byte_length_at(&self, length: u64) -> u64 {
        self.roots_at(length).iter().map(|r| r.1).sum()
    }
    /// byte offset of block i
    pub fn offset_of(&self, i: u64) -> u64 {
        (0..i).map(|k| self.nodes[&(2 * k)].0).sum()
    }
}

// ---------------------------------------------------------------- oplog frames
#[derive(Clone, Debug)]
pub struct Frame<'a> {
    pub payload: &'a [u8],
    pub header_bit: bool,
    pub partial: bool,
    pub total: usize,
}

/// A frame is valid iff 8 bytes are available, len > 0, len <= bytes available after the
/// leader, and the crc matches; anything else is "no frame here".
pub fn frame_at(buf: &[u8]) -> Option<Frame<'_>> {
    if buf.len() < 8 {
        return None;
    }
    let crc = u32::from_le_bytes(buf[0..4].try_into().unwrap());
    let comb = u32::from_le_bytes(buf[4..8].try_into().unwrap());
    let len = (comb >> 2) as usize;
    if len == 0 || buf.len() - 8 < len {
        return None;
    }
    if crc32(&buf[4..8 + len]) != crc {
        return None;
    }
    Some(Frame {
        payload: &buf[8..8 + len],
        header_bit: comb & 1 == 1,
        partial: comb & 2 == 2,
        total: 8 + len,
    })
}

pub fn make_frame(payload: &[u8], header_bit: bool, partial: bool) -> Vec<u8> {
    let comb: u32 = ((payload.len() as u32) << 2) | if partial { 2 } else { 0 } | if header_bit { 1 } else { 0 };
    let mut v = Vec::with_capacity(8 + payload.len());
    v.extend_from_slice(&[0, 0, 0, 0]);
    v.extend_from_slice(&comb.to_le_bytes());
    v.extend_from_slice(payload);
    let c = crc32(&v[4..]);
    v[0..4].copy_from_slice(&c.to_le_bytes());
    v
}

#[derive(Clone, Debug, PartialEq, Default)]
pub struct RHeader {
    pub key: [u8; 32],
    pub manifest_ns: [u8; 32],
    pub manifest_pk: [u8; 32],
    pub public: [u8; 32],
    pub secret: Option<[u8; 64]>,
    pub fork: u64,
    pub length: u64,
    pub root_hash: Vec<u8>,
    pub signature: Vec<u8>,
    pub contiguous: u64,
}

impl RHeader {
    pub fn fresh(public: [u8; 32], secret_seed: Option<[u8; 32]>) -> RHeader {
        RHeader {
            key: public,
            manifest_ns: DEFAULT_NAMESPACE,
            manifest_pk: public,
            public,
            secret: secret_seed.map(|s| {
                let mut f = [0u8; 64];
                f[..32].copy_from_slice(&s);
                f[32..].copy_from_slice(&public);
                f
            }),
            ..Default::default()
        }
    }
    pub fn encode(&self) -> Vec<u8> {
        let mut o = vec![1u8, 6u8];
        o.extend_from_slice(&self.key);
        o.extend_from_slice(&[0, 0, 1, 0]);
        o.extend_from_slice(&self.manifest_ns);
        o.extend_from_slice(&self.manifest_pk);
        enc_buf(&mut o, &self.public);
        match &self.secret {
            Some(s) => enc_buf(&mut o, s),
            None => o.push(0),
        }
        enc_uint(&mut o, 0); // user data
        enc_uint(&mut o, self.fork);
        enc_uint(&mut o, self.length);
        enc_buf(&mut o, &self.root_hash);
        enc_buf(&mut o, &self.signature);
        enc_uint(&mut o, 0); // reorg hints
        enc_uint(&mut o, self.contiguous);
        o
    }
    pub fn decode(b: &[u8]) -> Option<RHeader> {
        let mut r = Rd::new(b);
        let _version = r.u8()?;
        let _flags = r.u8()?;
        let key: [u8; 32] = r.take(32)?.try_into().ok()?;
        let m = r.take(4)?;
        if m != [0, 0, 1, 0] {
            return None;
        }
        let manifest_ns: [u8; 32] = r.take(32)?.try_into().ok()?;
        let manifest_pk: [u8; 32] = r.take(32)?.try_into().ok()?;
        let public: [u8; 32] = r.buf()?.try_into().ok()?;
        let sk = r.buf()?;
        let secret = if sk.is_empty() {
            None
        } else {
            Some(sk.try_into().ok()?)
        };
        let ud = r.uint()?;
        for _ in 0..ud {
            r.buf()?;
        }
        let fork = r.uint()?;
        let length = r.uint()?;
        let root_hash = r.buf()?.to_vec();
        let signature = r.buf()?.to_vec();
        let reorgs = r.uint()?;
        for _ in 0..reorgs {
            r.buf()?;
        }
        let contiguous = r.uint()?;
        Some(RHeader {
            key,
            manifest_ns,
            manifest_pk,
            public,
            secret,
            fork,
            length,
            root_hash,
            signature,
            contiguous,
        })
    }
}

#[derive(Clone, Debug, PartialEq, Default)]
pub struct REntry {
    pub nodes: Vec<(u64, u64, [u8; 32])>,
    /// fork, ancestors, length, signature
    pub upgrade: Option<(u64, u64, u64, Vec<u8>)>,
    /// drop, start, length
    pub bitfield: Option<(bool, u64, u64)>,
}

impl REntry {
    pub fn flags(&self) -> u8 {
        (if self.nodes.is_empty() { 0 } else { 2 })
            | (if self.upgrade.is_some() { 4 } else { 0 })
            | (if self.bitfield.is_some() { 8 } else { 0 })
    }
    pub fn encode(&self) -> Vec<u8> {
        let mut o = vec![self.flags()];
        if !self.nodes.is_empty() {
            enc_uint(&mut o, self.nodes.len() as u64);
            for (i, s, h) in &self.nodes {
                enc_uint(&mut o, *i);
                enc_uint(&mut o, *s);
                o.extend_from_slice(h);
            }
        }
        if let Some((fork, anc, len, sig)) = &self.upgrade {
            enc_uint(&mut o, *fork);
            enc_uint(&mut o, *anc);
            enc_uint(&mut o, *len);
            enc_buf(&mut o, sig);
        }
        if let Some((drop, start, len)) = &self.bitfield {
            o.push(if *drop { 1 } else { 0 });
            enc_uint(&mut o, *start);
            enc_uint(&mut o, *len);
        }
        o
    }
    pub fn decode(b: &[u8]) -> Option<REntry> {
        let mut r = Rd::new(b);
        let flags = r.u8()?;
        let mut e = REntry::default();
        if flags & 1 != 0 {
            let n = r.uint()?;
            for _ in 0..n {
                r.buf()?;
                r.buf()?;
            }
        }
        if flags & 2 != 0 {
            let n = r.uint()?;
            for _ in 0..n {
                let i = r.uint()?;
                let s = r.uint()?;
                let h: [u8; 32] = r.take(32)?.try_into().ok()?;
                e.nodes.push((i, s, h));
            }
        }
        if flags & 4 != 0 {
            let fork = r.uint()?;
            let anc = r.uint()?;
            let len = r.uint()?;
            let sig = r.buf()?.to_vec();
            e.upgrade = Some((fork, anc, len, sig));
        }
        if flags & 8 != 0 {
            let f = r.u8()?;
            let start = r.uint()?;
            let len = r.uint()?;
            e.bitfield = Some((f & 1 == 1, start, len));
        }
        if !r.rest().is_empty() {
            return None;
        }
        Some(e)
    }
}

#[derive(Clone, Debug)]
pub struct ROplog {
    pub header: RHeader,
    pub slot: usize,
    pub bits: (Option<bool>, Option<bool>),
    pub entry_bit: bool,
    pub entries: Vec<REntry>,
    pub entry_flags: Vec<u8>,
    pub partial_dropped: usize,
    pub stale_ignored: bool,
    pub entries_bytes: usize,
}

/// Read an oplog image per the JS rules. None = no valid header (empty / unreadable).
pub fn read_oplog(buf: &[u8]) -> Option<ROplog> {
    let s0 = if buf.len() > 0 { frame_at(&buf[0..buf.len().min(4096)]) } else { None };
    let s1 = if buf.len() > 4096 { frame_at(&buf[4096..buf.len().min(8192)]) } else { None };
    let h0 = s0.as_ref().and_then(|f| RHeader::decode(f.payload).map(|h| (h, f.header_bit)));
    let h1 = s1.as_ref().and_then(|f| RHeader::decode(f.payload).map(|h| (h, f.header_bit)));
    let (header, slot, entry_bit) = match (&h0, &h1) {
        (Some((a, b0)), Some((b, b1))) => {
            if b0 == b1 {
                (a.clone(), 0, b0 ^ b1)
            } else {
                (b.clone(), 1, b0 ^ b1)
            }
        }
        // missing slot 1 is taken as equal to slot 0's bit
        (Some((a, _)), None) => (a.clone(), 0, false),
        // missing slot 0 is taken as the complement of slot 1's bit
        (None, Some((b, _))) => (b.clone(), 1, true),
        (None, None) => return None,
    };
    let mut entries = vec![];
    let mut flags = vec![];
    let mut partials = vec![];
    let mut off = 8192usize;
    let mut stale = false;
    let mut kept_bytes = 0usize;
    while off < buf.len() {
        let Some(f) = frame_at(&buf[off..]) else { break };
        if f.header_bit != entry_bit {
            stale = true;
            break;
        }
        let Some(e) = REntry::decode(f.payload) else { break };
        flags.push(f.payload[0]);
        entries.push(e);
        partials.push(f.partial);
        off += f.total;
        kept_bytes = off - 8192;
    }
    let mut dropped = 0;
    while let Some(true) = partials.last() {
        partials.pop();
        entries.pop();
        flags.pop();
        dropped += 1;
    }
    Some(ROplog {
        header,
        slot,
        bits: (h0.map(|x| x.1), h1.map(|x| x.1)),
        entry_bit,
        entries,
        entry_flags: flags,
        partial_dropped: dropped,
        stale_ignored: stale,
        entries_bytes: kept_bytes,
    })
}

/// Abstract log state reconstructed from the four files.
#[derive(Clone, Debug, PartialEq)]
pub struct RState {
    pub public: [u8; 32],
    pub writable: bool,
    pub secret: Option<[u8; 64]>,
    pub fork: u64,
    pub length: u64,
    pub byte_length: u64,
    pub root_hash: Vec<u8>,
    pub signature: Vec<u8>,
    pub contiguous_hint: u64,
    /// bit i set = block i present
    pub present: Vec<bool>,
    pub nodes: BTreeMap<u64, (u64, [u8; 32])>,
}

pub fn read_bit(bitfield: &[u8], i: u64) -> bool {
    let byte = (i / 8) as usize;
    if byte >= bitfield.len() {
        return false;
    }
    bitfield[byte] >> (i % 8) & 1 == 1
}
pub fn write_bit(bitfield: &mut Vec<u8>, i: u64, v: bool) {
    let byte = (i / 8) as usize;
    if byte >= bitfield.len() {
        if !v {
            return;
        }
        // grow in whole 4096-byte pages
        bitfield.resize((byte / 4096 + 1) * 4096, 0);
    }
    if v {
        bitfield[byte] |= 1 << (i % 8);
    } else {
        bitfield[byte] &= !(1 << (i % 8));
    }
}

pub fn read_tree_file(tree: &[u8]) -> BTreeMap<u64, (u64, [u8; 32])> {
    let mut m = BTreeMap::new();
    for (i, c) in tree.chunks(40).enumerate() {
        if c.len() < 40 || c.iter().all(|b| *b == 0) {
            continue;
        }
        let size = u64::from_le_bytes(c[0..8].try_into().unwrap());
        let h: [u8; 32] = c[8..40].try_into().unwrap();
        m.insert(i as u64, (size, h));
    }
    m
}

/// Reference reader: (tree, data, bitfield, oplog) images -> abstract state. Err = reason the
/// image is not a readable JS-layout store.
pub fn read_state(files: &[Vec<u8>; 4]) -> Result<(RState, ROplog), String> {
    let op = read_oplog(&files[3]).ok_or_else(|| "no valid header slot".to_string())?;
    let mut nodes = read_tree_file(&files[0]);
    let mut bits = files[2].clone();
    let mut h = op.header.clone();
    let mut contiguous = h.contiguous;
    for e in &op.entries {
        for (i, s, hash) in &e.nodes {
            nodes.insert(*i, (*s, *hash));
        }
        if let Some((drop, start, len)) = e.bitfield {
            for i in start..start + len {
                write_bit(&mut bits, i, !drop);
            }
            // contiguous length hint maintenance as the scheme prescribes
            if drop {
                if start < contiguous {
                    contiguous = start;
                }
            } else if start <= contiguous && contiguous <= start + len {
                contiguous = start + len;
                while read_bit(&bits, contiguous) {
                    contiguous += 1;
                }
            }
        }
        if let Some((fork, _anc, len, sig)) = &e.upgrade {
            h.fork = *fork;
            h.length = *len;
            h.signature = sig.clone();
            // root hash recomputed from the node table
            let mut roots = vec![];
            for r in ft_roots(*len) {
                let n = nodes.get(&r).ok_or_else(|| format!("root {r} of length {len} missing while replaying entries"))?;
                roots.push((r, n.0, n.1));
            }
            h.root_hash = h_roots(&roots).to_vec();
        }
    }
    let mut byte_length = 0;
    for r in ft_roots(h.length) {
        let n = nodes
            .get(&r)
            .ok_or_else(|| format!("root node {r} for length {} not in tree file or entries", h.length))?;
        byte_length += n.0;
    }
    let present: Vec<bool> = (0..h.length).map(|i| read_bit(&bits, i)).collect();
    // bits at or beyond length must be clear
    let mut stray = None;
    for (bi, b) in bits.iter().enumerate() {
        if *b != 0 {
            for k in 0..8 {
                let i = bi as u64 * 8 + k;
                if i >= h.length && (b >> k) & 1 == 1 {
                    stray = Some(i);
                }
            }
        }
    }
    if let Some(i) = stray {
        return Err(format!("bitfield bit {i} set beyond length {}", h.length));
    }
    Ok((
        RState {
            public: h.public,
            writable: h.secret.is_some(),
            secret: h.secret,
            fork: h.fork,
            length: h.length,
            byte_length,
            root_hash: h.root_hash.clone(),
            signature: h.signature.clone(),
            contiguous_hint: contiguous,
            present,
            nodes,
        },
        op,
    ))
}

/// byte offset and size of block i from the node table alone (sum of left siblings on the
/// path from the covering root).
pub fn block_range(nodes: &BTreeMap<u64, (u64, [u8; 32])>, length: u64, i: u64) -> Option<(u64, u64)> {
    let leaf = 2 * i;
    let mut off = 0u64;
    for r in ft_roots(length) {
        let (lo, hi) = ft_span(r);
        if leaf > hi {
            off += nodes.get(&r)?.0;
            continue;
        }
        if leaf < lo {
            return None;
        }
        let mut cur = r;
        while cur != leaf {
            let (l, rr) = ft_children(cur)?;
            let (_, lhi) = ft_span(l);
            if leaf <= lhi {
                cur = l;
            } else {
                off += nodes.get(&l)?.0;
                cur = rr;
            }
        }
        return Some((off, nodes.get(&leaf)?.0));
    }
    None
}

// ---------------------------------------------------------------- writer
/// Lay out an oplog: header payloads for slot 0 / slot 1 with their bits, then entry frames.
pub fn write_oplog(
    slot0: Option<(&RHeader, bool)>,
    slot1: Option<(&RHeader, bool)>,
    entries: &[(Vec<u8>, bool, bool)], // payload, header_bit, partial
    tail_garbage: &[u8],
) -> Vec<u8> {
    let mut o = vec![0u8; 8192];
    if let Some((h, bit)) = slot0 {
        let f = make_frame(&h.encode(), bit, false);
        o[..f.len()].copy_from_slice(&f);
    }
    if let Some((h, bit)) = slot1 {
        let f = make_frame(&h.encode(), bit, false);
        o[4096..4096 + f.len()].copy_from_slice(&f);
    }
    for (p, bit, partial) in entries {
        o.extend_from_slice(&make_frame(p, *bit, *partial));
    }
    o.extend_from_slice(tail_garbage);
    if entries.is_empty() && tail_garbage.is_empty() {
        // JS truncates to the minimum size; both forms are valid
    }
    o
}

pub fn tree_file_of(nodes: &BTreeMap<u64, (u64, [u8; 32])>) -> Vec<u8> {
    let mut o = vec![];
    if let Some((&max, _)) = nodes.iter().next_back() {
        o.resize(((max + 1) * 40) as usize, 0);
        for (i, (s, h)) in nodes {
            let p = (*i * 40) as usize;
            o[p..p + 8].copy_from_slice(&s.to_le_bytes());
            o[p + 8..p + 40].copy_from_slice(h);
        }
    }
    o
}

// ---------------------------------------------------------------- self test (KATs)
fn hex(s: &str) -> Vec<u8> {
    (0..s.len() / 2)
        .map(|i| u8::from_str_radix(&s[2 * i..2 * i + 2], 16).unwrap())
        .collect()
}

/// Known-answer tests from hypercore-crypto (quoted in src/crypto/hash.rs tests) and CRC-32
/// check values. Returns the list of failures (empty = pass).
pub fn self_test() -> Vec<String> {
    let mut f = vec![];
    if crc32(b"123456789") != 0xCBF4_3926 {
        f.push("crc32 check value".into());
    }
    if crc32(b"") != 0 {
        f.push("crc32 empty".into());
    }
    if h_leaf(b"hello world").to_vec() != hex("9f1b578fd57a4df015493d2886aec9600eef913c3bb009768c7f0fb875996308") {
        f.push("leaf hash KAT".into());
    }
    let l = h_leaf(b"hello world");
    if h_parent(11, &l, 11, &l).to_vec() != hex("3ad0c9b58b771d1b7707e1430f37c23a23dd46e0c7c3ab9c16f79d25f7c36804") {
        f.push("parent hash KAT".into());
    }
    if h_roots(&[(3, 11, [0; 32]), (9, 2, [0; 32])]).to_vec()
        != hex("0e576a56b478cddb6ffebab8c494532b6de009466b2e9f7af9143fc54b9eaa36")
    {
        f.push("tree hash KAT".into());
    }
    if tree_namespace().to_vec() != hex("9fac70b50ca14efc4e91c833b204e75b8b5aad8b5881bfc0adb5ef38a3275b9c") {
        f.push("tree namespace".into());
    }
    // flat-tree spot checks
    if ft_roots(0) != Vec::<u64>::new() || ft_roots(1) != vec![0] || ft_roots(3) != vec![1, 4] || ft_roots(7) != vec![3, 9, 12] || ft_roots(8) != vec![7] {
        f.push("ft_roots".into());
    }
    if ft_parent(0) != 1 || ft_parent(2) != 1 || ft_parent(1) != 3 || ft_parent(5) != 3 || ft_sibling(4) != 6 || ft_sibling(1) != 5 || ft_children(3) != Some((1, 5)) || ft_span(3) != (0, 6) || ft_span(9) != (8, 10) {
        f.push("flat-tree arithmetic".into());
    }
    let mut v = vec![];
    for x in [0u64, 252, 253, 65535, 65536, 0xffff_ffff, 0x1_0000_0000, u64::MAX] {
        enc_uint(&mut v, x);
    }
    let mut r = Rd::new(&v);
    for x in [0u64, 252, 253, 65535, 65536, 0xffff_ffff, 0x1_0000_0000, u64::MAX] {
        if r.uint() != Some(x) {
            f.push(format!("uint round trip {x}"));
        }
    }
    if v.len() != 1 + 1 + 3 + 3 + 5 + 5 + 9 + 9 {
        f.push("uint widths".into());
    }
    f
}

// ---------------------------------------------------------------- independent proof verifier
/// A proof in neutral form (so that this module does not depend on the crate's types).
#[derive(Clone, Debug, Default)]
pub struct RProof {
    pub fork: u64,
    /// (block index, value, sibling nodes)
    pub block: Option<(u64, Vec<u8>, Vec<(u64, u64, [u8; 32])>)>,
    /// (node index, nodes: the node itself first, then siblings)
    pub hash: Option<(u64, Vec<(u64, u64, [u8; 32])>)>,
    pub seek: Option<(u64, Vec<(u64, u64, [u8; 32])>)>,
    /// (start, length, nodes, additional nodes, signature)
    pub upgrade: Option<(u64, u64, Vec<(u64, u64, [u8; 32])>, Vec<(u64, u64, [u8; 32])>, Vec<u8>)>,
}

#[derive(Clone, Debug, Default)]
pub struct RVerified {
    pub new_length: Option<u64>,
    pub new_byte_length: Option<u64>,
    pub learned: Vec<(u64, u64, [u8; 32])>,
}

type N3 = (u64, u64, [u8; 32]);

fn fold_path(start: N3, rest: &[N3], extra: Option<N3>, learned: &mut Vec<N3>) -> Result<(N3, bool), String> {
    let mut cur = start;
    learned.push(cur);
    let mut extra = extra;
    let mut used_extra = false;
    let mut i = 0;
    loop {
        let sib = ft_sibling(cur.0);
        let n = if extra.map(|e| e.0 == sib).unwrap_or(false) {
            used_extra = true;
            extra.take().unwrap()
        } else if i < rest.len() {
            let n = rest[i];
            i += 1;
            if n.0 != sib {
                return Err(format!("node {} is not the sibling ({}) of path node {}", n.0, sib, cur.0));
            }
            n
        } else {
            break;
        };
        let (l, r) = if n.0 < cur.0 { (n, cur) } else { (cur, n) };
        let p = (ft_parent(cur.0), l.1 + r.1, h_parent(l.1, &l.2, r.1, &r.2));
        learned.push(n);
        learned.push(p);
        cur = p;
    }
    Ok((cur, used_extra))
}

/// Verify `proof` as a replica that knows `known` nodes and has `replica_len` blocks, holding
/// only the public key. Pure reference logic: sibling paths, root stack, signature.
pub fn ref_verify(p: &RProof, replica_len: u64, replica_fork: u64, known: &BTreeMap<u64, (u64, [u8; 32])>, pk: &[u8; 32]) -> Result<RVerified, String> {
    if p.fork != replica_fork {
        return Err("fork differs".into());
    }
    let mut out = RVerified::default();
    // seek section: first node, then siblings
    let mut seek_root: Option<N3> = None;
    if let Some((_bytes, nodes)) = &p.seek {
        if !nodes.is_empty() {
            let (r, _) = fold_path(nodes[0], &nodes[1..], None, &mut out.learned)?;
            seek_root = Some(r);
        }
    }
    // block / hash section
    let mut root: Option<N3> = seek_root;
    if let Some((idx, value, nodes)) = &p.block {
        let leaf = (2 * idx, value.len() as u64, h_leaf(value));
        let (r, _) = fold_path(leaf, nodes, seek_root, &mut out.learned)?;
        root = Some(r);
    } else if let Some((idx, nodes)) = &p.hash {
        if nodes.is_empty() {
            return Err("hash section without nodes".into());
        }
        if nodes[0].0 != *idx {
            return Err(format!("hash section starts with node {} instead of {}", nodes[0].0, idx));
        }
        let (r, _) = fold_path(nodes[0], &nodes[1..], seek_root, &mut out.learned)?;
        root = Some(r);
    }
    let mut root_pending = root;
    if let Some((start, length, nodes, additional, sig)) = &p.upgrade {
        if *start != replica_len {
            return Err(format!("upgrade starts at {start}, replica has {replica_len}"));
        }
        if *length == 0 {
            return Err("zero-length upgrade".into());
        }
        // root stack starts with the replica's roots
        let mut stack: Vec<N3> = vec![];
        for r in ft_roots(replica_len) {
            let n = known.get(&r).ok_or_else(|| format!("replica root {r} unknown"))?;
            stack.push((r, n.0, n.1));
        }
        let mut end = 2 * replica_len; // flat index of the first uncovered leaf
        let push = |stack: &mut Vec<N3>, n: N3, end: &mut u64, learned: &mut Vec<N3>| -> Result<(), String> {
            let (lo, hi) = ft_span(n.0);
            if lo != *end {
                return Err(format!("node {} does not start at the end of the tree (leaf {})", n.0, *end));
            }
            *end = hi + 2;
            stack.push(n);
            learned.push(n);
            while stack.len() > 1 {
                let a = stack[stack.len() - 1];
                let b = stack[stack.len() - 2];
                if ft_sibling(a.0) != b.0 || ft_depth(a.0) != ft_depth(b.0) {
                    break;
                }
                let par = (ft_parent(a.0), a.1 + b.1, h_parent(b.1, &b.2, a.1, &a.2));
                stack.pop();
                stack.pop();
                stack.push(par);
                learned.push(par);
            }
            Ok(())
        };
        let target = 2 * (start + length);
        let mut i = 0;
        while end < target {
            let use_root = root_pending.map(|r| ft_span(r.0).0 == end).unwrap_or(false);
            if use_root {
                let r = root_pending.take().unwrap();
                push(&mut stack, r, &mut end, &mut out.learned)?;
            } else if i < nodes.len() {
                push(&mut stack, nodes[i], &mut end, &mut out.learned)?;
                i += 1;
            } else {
                return Err("upgrade nodes exhausted before reaching the target length".into());
            }
        }
        if end != target {
            return Err(format!("upgrade nodes overshoot the target: end leaf {end}, target {target}"));
        }
        let expect_roots = ft_roots(start + length);
        let got_roots: Vec<u64> = stack.iter().map(|n| n.0).collect();
        if got_roots != expect_roots {
            return Err(format!("root set {got_roots:?} is not the root set of length {} ({expect_roots:?})", start + length));
        }
        // upgrade nodes beyond the target are not used by the scheme (duplicates are tolerated
        // by the crate); additional nodes extend the tree
        for n in additional {
            push(&mut stack, *n, &mut end, &mut out.learned)?;
        }
        let new_len = end / 2;
        let rh = h_roots(&stack);
        if !verify_sig(pk, &signable(&rh, new_len, p.fork), sig) {
            return Err(format!("signature does not verify for length {new_len}, fork {}", p.fork));
        }
        out.new_length = Some(new_len);
        out.new_byte_length = Some(stack.iter().map(|n| n.1).sum());
    }
    if let Some(r) = root_pending {
        // must be anchored in what the replica already knows
        match known.get(&r.0) {
            Some(k) if k.1 == r.2 => {}
            Some(_) => return Err(format!("computed node {} differs from the replica's node", r.0)),
            None => return Err(format!("computed node {} is not anchored in a known node", r.0)),
        }
    }
    Ok(out)
}
