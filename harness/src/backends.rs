//! Storage backends for the differential check (C14): the instrumented world, the real
//! in-memory backend (kept alive across reopen behind a shared handle) and the real disk backend.

use crate::exec;
use crate::world::{self, Files, World};
use async_trait::async_trait;
use futures::future::FutureExt;
use hypercore::{HypercoreError, Storage, StorageTraits, Store};
use random_access_memory::RandomAccessMemory;
use random_access_storage::{RandomAccess, RandomAccessError};
use std::path::PathBuf;
use std::sync::{Arc, Mutex};

/// Pass-through handle onto a real RandomAccessMemory that outlives the Hypercore instance, so
/// that "close and reopen" is possible on the stock in-memory backend.
#[derive(Debug)]
pub struct SharedMem(pub Arc<Mutex<RandomAccessMemory>>);

#[async_trait]
impl RandomAccess for SharedMem {
    async fn write(&mut self, offset: u64, data: &[u8]) -> Result<(), RandomAccessError> {
        let mut g = self.0.lock().unwrap();
        exec::block_on(g.write(offset, data))
    }
    async fn read(&mut self, offset: u64, length: u64) -> Result<Vec<u8>, RandomAccessError> {
        let mut g = self.0.lock().unwrap();
        exec::block_on(g.read(offset, length))
    }
    async fn del(&mut self, offset: u64, length: u64) -> Result<(), RandomAccessError> {
        let mut g = self.0.lock().unwrap();
        exec::block_on(g.del(offset, length))
    }
    async fn truncate(&mut self, length: u64) -> Result<(), RandomAccessError> {
        let mut g = self.0.lock().unwrap();
        exec::block_on(g.truncate(length))
    }
    async fn len(&mut self) -> Result<u64, RandomAccessError> {
        let mut g = self.0.lock().unwrap();
        exec::block_on(g.len())
    }
    async fn is_empty(&mut self) -> Result<bool, RandomAccessError> {
        let mut g = self.0.lock().unwrap();
        exec::block_on(g.is_empty())
    }
    async fn sync_all(&mut self) -> Result<(), RandomAccessError> {
        Ok(())
    }
}

pub enum Backend {
    World(Arc<Mutex<World>>),
    Memory([Arc<Mutex<RandomAccessMemory>>; 4]),
    Disk(PathBuf),
}

impl Backend {
    pub fn name(&self) -> &'static str {
        match self {
            Backend::World(_) => "instrumented",
            Backend::Memory(_) => "memory",
            Backend::Disk(_) => "disk",
        }
    }
    pub fn new_world() -> Backend {
        Backend::World(World::new())
    }
    pub fn new_memory() -> Backend {
        Backend::Memory([
            Arc::new(Mutex::new(RandomAccessMemory::default())),
            Arc::new(Mutex::new(RandomAccessMemory::default())),
            Arc::new(Mutex::new(RandomAccessMemory::default())),
            Arc::new(Mutex::new(RandomAccessMemory::default())),
        ])
    }
    pub fn new_disk(dir: PathBuf) -> Backend {
        let _ = std::fs::remove_dir_all(&dir);
        std::fs::create_dir_all(&dir).unwrap();
        Backend::Disk(dir)
    }
    /// `overwrite`: the crate is asked to reset whatever the stores hold (Storage::open(.., true))
    pub async fn storage_with(&self, overwrite: bool) -> Result<Storage, HypercoreError> {
        if !overwrite {
            return self.storage().await;
        }
        match self {
            Backend::World(w) => {
                let w = w.clone();
                let create = move |store: Store| {
                    let w = w.clone();
                    async move { Ok(Box::new(world::Handle { world: w, store: world::store_idx(&store) }) as Box<dyn StorageTraits + Send>) }.boxed()
                };
                Storage::open(create, true).await
            }
            Backend::Memory(m) => {
                let m = m.clone();
                let create = move |store: Store| {
                    let h = m[world::store_idx(&store)].clone();
                    async move { Ok(Box::new(SharedMem(h)) as Box<dyn StorageTraits + Send>) }.boxed()
                };
                Storage::open(create, true).await
            }
            Backend::Disk(dir) => Storage::new_disk(dir, true).await,
        }
    }
    pub async fn storage(&self) -> Result<Storage, HypercoreError> {
        match self {
            Backend::World(w) => world::storage_of(w).await,
            Backend::Memory(m) => {
                let m = m.clone();
                let create = move |store: Store| {
                    let h = m[world::store_idx(&store)].clone();
                    async move { Ok(Box::new(SharedMem(h)) as Box<dyn StorageTraits + Send>) }.boxed()
                };
                Storage::open(create, false).await
            }
            Backend::Disk(dir) => Storage::new_disk(dir, false).await,
        }
    }
    pub fn files(&self) -> Files {
        match self {
            Backend::World(w) => world::snapshot(w),
            Backend::Memory(m) => {
                let mut f: Files = Default::default();
                for i in 0..4 {
                    let mut g = m[i].lock().unwrap();
                    let len = exec::block_on(g.len()).unwrap_or(0);
                    f[i] = exec::block_on(g.read(0, len)).unwrap_or_default();
                }
                f
            }
            Backend::Disk(dir) => {
                let mut f: Files = Default::default();
                for (i, n) in world::STORE_NAMES.iter().enumerate() {
                    f[i] = std::fs::read(dir.join(n)).unwrap_or_default();
                }
                f
            }
        }
    }
    pub fn cleanup(&self) {
        if let Backend::Disk(dir) = self {
            let _ = std::fs::remove_dir_all(dir);
        }
    }
}
