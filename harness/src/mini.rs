//! Reduced workloads with the same oracles, sized for the sanitizer lanes (Miri ~1 s per public
//! call; ASan/TSan a few times slower than native). `hcverif mini <name> <seed>`.
//! Prints `MINI OK name=<..> calls=<n>` and exits 0, or `MINI VIOLATION sig=<..> detail=<..>`
//! and exits 1.

use crate::exec;
use crate::framework::{Ctx, Tier};
use crate::model::*;
use crate::mutate;
use crate::ops::{self, build_core, keypair, CacheMode, Op};
use crate::repl::{self, apply_proof, create_proof, Pair, Plan};
use crate::rng::Rng;
use crate::world::World;
use std::sync::atomic::{AtomicU64, Ordering};

static CALLS: AtomicU64 = AtomicU64::new(0);

fn fail(sig: &str, detail: &str) -> ! {
    println!("MINI VIOLATION sig={sig} detail={}", detail.chars().take(500).collect::<String>());
    std::process::exit(1);
}

fn hist(ops: &[Op], seed: u64, cache: CacheMode) {
    let res = ops::run_history(seed, ops, cache, 16, CMP_ALL, |_, _, _| {
        CALLS.fetch_add(1, Ordering::Relaxed);
        Ok(())
    });
    if let Err((i, f)) = res {
        fail(&f.sig, &format!("op #{i}: {}", f.detail));
    }
}

/// C01/C08 mini: small history incl. reopen with unflushed entries, clears, empty blocks; one
/// core that crosses a bitfield page edge (page load on reopen).
fn c01(seed: u64, cache: CacheMode) {
    let mut r = Rng::new(seed);
    let a = |t: u32, l: u32| Op::Append(t, l);
    hist(&[a(1, 5), a(2, 0), Op::Batch(vec![(3, 7), (4, 0), (5, 2)]), Op::Clear(1, 3), Op::Reopen, a(6, 9), Op::Get(0), Op::Clear(4, 9), Op::Reopen, a(7, 0), Op::Reopen], seed, cache);
    let cfg = crate::gen::RandCfg { max_ops: 14, reopen_pct: 15, clear_pct: 20, read_pct: 10, max_block: 40, big_batch: 0, far_clear: false };
    let ops = crate::gen::random_history(&mut r, &cfg);
    hist(&ops, seed ^ 1, cache);
    // (not under Miri: the 32770-block batch alone takes hours at ~1000x slowdown; the page-edge
    // load path runs natively in C01/C08 and under ASan in C08's lane)
    if seed % 4 == 0 && !cfg!(miri) {
        // bitfield page edge: 32770 one-byte blocks, clear across the edge, reopen
        let ops = vec![Op::Batch((0..32_770u32).map(|i| (i + 1, 1)).collect()), Op::Clear(32_766, 32_769), Op::Reopen];
        let res = ops::run_history(seed, &ops, cache, 4, CMP_CONTIG, |_, _, _| Ok(()));
        if let Err((i, f)) = res {
            fail(&f.sig, &format!("big op #{i}: {}", f.detail));
        }
        CALLS.fetch_add(3, Ordering::Relaxed);
    }
}

/// C03 + C04 + C09 mini: honest rounds, a few alterations and arbitrary proofs.
fn c03(seed: u64, cache: CacheMode) {
    let mut r = Rng::new(seed);
    let mut pair = match Pair::new(seed, cache) {
        Ok(p) => p,
        Err(f) => fail(&f.sig, &f.detail),
    };
    let n = 3 + r.below(5) as u32;
    let wops: Vec<Op> = (0..n).map(|i| Op::Append(i + 1, [5u32, 0, 9, 3][i as usize % 4])).collect();
    if let Err(f) = repl::apply_writer_ops(&mut pair.writer, &wops) {
        fail(&f.sig, &f.detail);
    }
    for k in 0..6 {
        let rl = pair.replica.model.length();
        let wl = pair.writer.model.length();
        let plan: Plan = repl::random_plan(&mut r, rl, wl, &pair.writer.model, &pair.replica.model);
        if plan == Plan::default() {
            continue;
        }
        // hostile first: a few alterations of the honest proof on the main replica must be refused
        if let Ok(req) = pair.replica.make_request(&plan) {
            if let Ok(Ok(Some(p))) = create_proof(pair.writer.core(), &req) {
                let alts = mutate::alterations(&p, &mut r, 1);
                for alt in alts.iter().filter(|a| a.must_refuse()).take(3) {
                    if let Some(q) = mutate::apply(&p, alt) {
                        CALLS.fetch_add(1, Ordering::Relaxed);
                        match apply_proof(pair.replica.core(), &q) {
                            Ok(Ok(true)) => fail("accepted-altered", &alt.kind()),
                            Ok(_) => {}
                            Err(pn) => fail("panic-on-altered", &pn),
                        }
                    }
                }
                let q = mutate::arbitrary_proof(&mut r, rl, 100);
                CALLS.fetch_add(1, Ordering::Relaxed);
                if let Err(pn) = apply_proof(pair.replica.core(), &q) {
                    fail("panic-on-arbitrary", &pn);
                }
            }
        }
        CALLS.fetch_add(2, Ordering::Relaxed);
        if let Err(f) = pair.round(&plan) {
            fail(&f.sig, &f.detail);
        }
        if let Err(f) = pair.replica.check(CMP_HAS, 16, "mini") {
            fail(&f.sig, &f.detail);
        }
        if k == 3 {
            if let Err(f) = pair.replica.reopen() {
                fail(&f.sig, &f.detail);
            }
        }
    }
    if let Err(f) = pair.complete() {
        fail(&f.sig, &f.detail);
    }
    // hostile requests on the writer
    for _ in 0..12 {
        let l = pair.writer.model.length();
        let bv = mutate::boundary_values(l);
        let req = repl::Request {
            block: if r.chance(1, 2) { Some(hypercore::RequestBlock { index: *r.pick(&bv), nodes: r.below(4) }) } else { None },
            hash: if r.chance(1, 3) { Some(hypercore::RequestBlock { index: *r.pick(&bv), nodes: r.below(4) }) } else { None },
            seek: if r.chance(1, 3) { Some(hypercore::RequestSeek { bytes: *r.pick(&bv) }) } else { None },
            upgrade: if r.chance(1, 2) { Some(hypercore::RequestUpgrade { start: *r.pick(&bv), length: *r.pick(&bv) }) } else { None },
        };
        CALLS.fetch_add(1, Ordering::Relaxed);
        if let Err(pn) = create_proof(pair.writer.core(), &req) {
            fail("create_proof-panic", &format!("{req:?}: {pn}"));
        }
    }
}

fn via_ctx(prop: &'static str, seed: u64, f: fn(&mut Ctx, u64), ids: &[u64]) {
    let mut ctx = Ctx::new(prop, Tier::Quick, seed);
    for id in ids {
        ctx.case_id = *id;
        f(&mut ctx, *id);
        if let Some(v) = ctx.violations.first() {
            fail(&v.sig, &v.detail);
        }
    }
    CALLS.fetch_add(ctx.evaluations, Ordering::Relaxed);
}

/// C15 mini with real OS threads hammering one SharedCore (each thread busy-polls its own calls).
fn c15_threads(seed: u64, nthreads: usize, calls_per_thread: usize, cache: CacheMode) {
    use hypercore::replication::{CoreInfo, CoreMethods, ReplicationMethods, SharedCore};
    let world = World::new();
    let key = ops::key_from_seed(seed);
    let mut core = match build_core(&world, Some(keypair(&key, true)), false, cache) {
        Ok(Ok(c)) => c,
        other => fail("build", &format!("{:?}", other.map(|r| r.map(|_| ()).map_err(|e| e.to_string())))),
    };
    for i in 0..3u32 {
        exec::block_on(core.append(&crate::rng::block_bytes(0x0100_0000 + i, 4))).unwrap();
    }
    world.lock().unwrap().yield_mode = true;
    let shared = SharedCore::from_hypercore(core);
    let mut handles = vec![];
    for t in 0..nthreads {
        let sc = shared.clone();
        handles.push(std::thread::spawn(move || {
            let mut r = Rng::new(seed ^ (t as u64 + 1) * 7919);
            let mut outcomes: Vec<(u64, u64, usize, u32)> = vec![];
            for k in 0..calls_per_thread {
                match r.below(6) {
                    0 | 1 => {
                        let tag = ((t as u32) << 16) | k as u32 | 0x4000_0000;
                        let b = crate::rng::block_bytes(tag, 6);
                        let o = exec::block_on(sc.append(&b)).expect("append");
                        outcomes.push((o.length, o.byte_length, 1, tag));
                    }
                    2 => {
                        let _ = exec::block_on(sc.get(r.below(6))).expect("get");
                    }
                    3 => {
                        let i = exec::block_on(sc.info());
                        assert!(i.byte_length >= 12);
                    }
                    4 => {
                        let _ = exec::block_on(sc.has(r.below(8)));
                    }
                    _ => {
                        let _ = exec::block_on(sc.create_proof(Some(hypercore::RequestBlock { index: 0, nodes: 0 }), None, None, None)).expect("create_proof");
                    }
                }
                std::thread::yield_now();
            }
            outcomes
        }));
    }
    let mut all: Vec<(u64, u64, usize, u32)> = vec![];
    for h in handles {
        match h.join() {
            Ok(v) => all.extend(v),
            Err(_) => fail("thread-panicked", "a task thread panicked"),
        }
    }
    CALLS.fetch_add((nthreads * calls_per_thread) as u64, Ordering::Relaxed);
    // closed-form: outcomes distinct and gap-free; each block at its implied index
    all.sort();
    let mut len = 3u64;
    let mut bytes = 12u64;
    for (l, b, n, _) in &all {
        if *l != len + *n as u64 || *b != bytes + 6 {
            fail("append-outcomes-not-gap-free", &format!("after ({len},{bytes}) comes ({l},{b})"));
        }
        len = *l;
        bytes = *b;
    }
    for (l, _, _, tag) in &all {
        let got = exec::block_on(shared.get(l - 1)).expect("get");
        if got.as_deref() != Some(&crate::rng::block_bytes(*tag, 6)[..]) {
            fail("block-not-at-implied-index", &format!("index {}", l - 1));
        }
    }
}

pub fn run(name: &str, seed: u64) -> i32 {
    exec::install_panic_hook();
    let cache = if seed % 2 == 0 { CacheMode::Tiny } else { CacheMode::Default };
    match name {
        "c01" => c01(seed, CacheMode::None),
        "c01cache" => c01(seed, cache),
        "c03" => c03(seed, CacheMode::None),
        "c03cache" => c03(seed, cache),
        "c11" => via_ctx("C11", seed, crate::props::c11_run_case, &[16 + seed % 16, 48 + seed % 16, 64 + seed % 16, 80 + seed % 16, 2000 + seed]),
        "c13" => via_ctx("C13", seed, crate::props::c13_run_case, &[1000 + seed * 6, 1001 + seed * 6, 1003 + seed * 6, 1005 + seed * 6]),
        "c15" => c15_threads(seed, 3, 5, CacheMode::None),
        "c15cache" => c15_threads(seed, 4, 40, cache),
        "c15stress" => {
            for k in 0..20 {
                c15_threads(seed * 100 + k, 6, 60, if k % 2 == 0 { CacheMode::None } else { cache });
            }
        }
        _ => {
            println!("unknown mini workload {name}");
            return 2;
        }
    }
    println!("MINI OK name={name} seed={seed} calls={}", CALLS.load(Ordering::Relaxed));
    0
}
