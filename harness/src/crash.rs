//! Crash / tear / fault enumeration over the storage-operation journal.

use crate::framework::Ctx;
use crate::model::*;
use crate::ops::{self, build_core, fail, CacheMode, Fail, Op, Sut};
use crate::rng::Rng;
use crate::world::{apply_mut, Files, JEntry, Mutn, World, STORE_NAMES};
use hypercore::HypercoreError;
use serde_json::{json, Value};

/// A recorded execution: journal of mutating storage operations attributed to public calls,
/// and the model state after each call (call 0 = build).
pub struct Recorded {
    pub journal: Vec<JEntry>,
    pub states: Vec<Model>,
    pub kinds: Vec<String>,
    pub key_seed: u64,
    /// true for calls that are a reopen which found unflushed entries
    pub reopen_with_unflushed: Vec<bool>,
    pub total_ops: u64,
    pub label: Value,
}

/// Run a writer history with journaling; results are compared with the model (no full
/// observation between steps).
pub fn record_history(key_seed: u64, ops: &[Op]) -> Result<Recorded, (usize, Fail)> {
    let world = World::new();
    {
        let mut w = world.lock().unwrap();
        w.journaling = true;
        w.call_id = 0;
    }
    let mut sut = Sut::create(key_seed, world.clone(), CacheMode::None).map_err(|f| (0, f))?;
    let mut states = vec![sut.model.clone()];
    let mut kinds = vec!["build".to_string()];
    let mut rwu = vec![false];
    for (i, op) in ops.iter().enumerate() {
        world.lock().unwrap().call_id = i as u64 + 1;
        let mut unfl = false;
        if matches!(op, Op::Reopen) {
            let f = crate::world::snapshot(&world);
            unfl = f[3].len() > 8192;
        }
        sut.step(op).map_err(|mut f| {
            f.sig = format!("record:{}", f.sig);
            (i, f)
        })?;
        states.push(sut.model.clone());
        kinds.push(op.kind().to_string());
        rwu.push(unfl);
    }
    let (journal, total_ops) = {
        let mut w = world.lock().unwrap();
        (std::mem::take(&mut w.journal), w.op_counter)
    };
    Ok(Recorded {
        journal,
        states,
        kinds,
        key_seed,
        reopen_with_unflushed: rwu,
        total_ops,
        label: json!({"ops": ops::ops_to_json(ops)}),
    })
}

fn opname(e: &JEntry) -> String {
    format!("{}.{}", STORE_NAMES[e.store], e.op.kind())
}

pub fn window(rec: &Recorded, k: usize) -> (usize, String) {
    // the call that would have issued journal[k]; for k == m: no call in progress
    let m = rec.journal.len();
    if k == m {
        return (rec.states.len() - 1, "end|idle".to_string());
    }
    let c = rec.journal[k].call_id as usize;
    let prev = if k > 0 && rec.journal[k - 1].call_id as usize == c {
        opname(&rec.journal[k - 1])
    } else {
        "start".to_string()
    };
    (c, format!("{}|{}>{}", rec.kinds[c], prev, opname(&rec.journal[k])))
}

#[derive(Clone, Copy, PartialEq)]
pub enum Mode {
    Crash,
    /// crash + byte prefixes of the next write
    Tear { random_cuts: u64 },
}

pub struct CrashOpts {
    pub mode: Mode,
    pub mask: u32,
    pub get_cap: u64,
    /// evaluate only these prefixes (None = all)
    pub only: Option<Vec<usize>>,
    /// restrict to crash points inside calls of this kind
    pub only_kind: Option<&'static str>,
    pub prop: &'static str,
    /// run the fixed usability continuation on the recovered core
    pub continuation: bool,
}

/// Extra, scenario-specific continuation on the recovered core (e.g. honest replication from
/// the uncrashed writer must still complete on a recovered replica).
pub type ExtraCont<'a> = Option<&'a mut dyn FnMut(&mut Sut) -> Result<(), Fail>>;

pub fn tear_cuts(off: u64, len: usize, store: usize, r: &mut Rng, random_cuts: u64) -> Vec<usize> {
    let mut cuts: Vec<usize> = vec![];
    if len <= 1 {
        return cuts;
    }
    if len <= 64 {
        return (1..len).collect();
    }
    for b in [1usize, 3, 4, 5, 7, 8, 9, 10, 12, 16, 40, 41, 42, 43, 44, 76, len - 1, len - 2, len - 4] {
        if b < len {
            cuts.push(b);
        }
    }
    // 512-byte sector edges (absolute file offsets)
    let mut s = (off / 512 + 1) * 512;
    while s < off + len as u64 {
        cuts.push((s - off) as usize);
        s += 512;
        if cuts.len() > 60 {
            break;
        }
    }
    if store == crate::world::TREE {
        let mut s = 40;
        while s < len && cuts.len() < 90 {
            cuts.push(s);
            s += 40;
        }
    }
    for _ in 0..random_cuts {
        cuts.push(1 + r.below(len as u64 - 1) as usize);
    }
    cuts.sort();
    cuts.dedup();
    cuts.retain(|c| *c > 0 && *c < len);
    cuts
}

pub enum Recovered {
    NoCore(String),
    State(usize), // index into [before, after]
}

/// Open the image, observe, decide which of the allowed states it is. Returns the recovered
/// Sut (bound to the matched model) for the continuation.
pub fn recover_and_match(
    files: Files,
    allowed: &[&Model],
    allow_no_core: bool,
    key_seed: u64,
    mask: u32,
    get_cap: u64,
    writable_either: bool,
) -> Result<Option<Sut>, Fail> {
    let world = World::from_files(files);
    let core = match build_core(&world, None, true, CacheMode::None) {
        Ok(Ok(c)) => c,
        Ok(Err(e)) => {
            // "no core yet" (crash inside the very first build()): the only acceptable failure
            // is the one that says so
            if allow_no_core && is_no_core_err(&e) {
                return Ok(None);
            }
            return Err(fail(format!("open-failed:{}", ops::err_sig(&e)), format!("open(true) failed: {e}")));
        }
        Err(p) => return Err(fail(format!("open-panic:{}", crate::exec::panic_sig(&p)), p)),
    };
    let mut sut = Sut {
        world,
        core: Some(core),
        model: allowed[0].clone(),
        key: ops::key_from_seed(key_seed),
        cache: CacheMode::None,
        get_cap,
        cmp_mask: mask,
        steps: 0,
        plain_reopen_every: 0,
        reopens: 0,
    };
    let o = observe(sut.core(), get_cap);
    let mut first_diff: Option<(String, String)> = None;
    let mut all_diffs: Vec<String> = vec![];
    for (ix, m) in allowed.iter().enumerate() {
        let mut m2: Model = (*m).clone();
        if writable_either {
            m2.writable = o.writeable;
        }
        let e = m2.expected_like(&o);
        match diff(&o, &e, mask) {
            None => {
                sut.model = m2;
                return Ok(Some(sut));
            }
            Some(d) => {
                all_diffs.push(format!("vs {}: {}", if allowed.len() == 1 { "expected" } else if ix == 0 { "before" } else { "after" }, d.1));
                if first_diff.is_none() {
                    first_diff = Some(d);
                }
            }
        }
    }
    let d = first_diff.unwrap();
    Err(fail(
        format!("neither-before-nor-after:{}", d.0),
        format!(
            "recovered {} matches neither the before nor the after state; {}",
            ops::short_obs(&o),
            all_diffs.join("; ")
        ),
    ))
}

/// Fixed continuation on a recovered writer/replica core: stays fully usable.
pub fn continuation(sut: &mut Sut) -> Result<(), Fail> {
    let tag = 0x7000_0000u32 + sut.model.length() as u32;
    let mut ops: Vec<Op> = vec![];
    if sut.model.writable {
        ops.push(Op::Append(tag, 6));
    }
    // clear only on writers: a sparse replica may lack the tree nodes needed to locate the
    // bytes of a block it does not hold, and the property does not promise that such a clear works
    if sut.model.length() > 0 && sut.model.writable {
        ops.push(Op::Clear(0, 1));
    }
    if sut.model.writable {
        ops.push(Op::Batch(vec![(tag + 1, 0), (tag + 2, 3)]));
    } else {
        ops.push(Op::Append(tag, 6)); // must be refused with NotWritable
    }
    ops.push(Op::Reopen);
    if sut.model.writable {
        ops.push(Op::Append(tag + 3, 2));
    }
    ops.push(Op::Reopen);
    // Second variant (recovered writers of odd length): the first operation after the recovery
    // does not grow the log (a clear), then a reopen, and then the recovered writer must still be
    // a usable source: a fresh replica upgrades to its length and fetches a block from it.
    let serve_variant = sut.model.writable && sut.model.length() % 2 == 1;
    if serve_variant {
        ops = vec![Op::Clear(0, 1), Op::Reopen];
    }
    let run = |sut: &mut Sut, ops: &[Op]| -> Result<(), Fail> {
        for (i, op) in ops.iter().enumerate() {
            sut.step(op).map_err(|f| fail(format!("continuation:{}:{}", op.kind(), f.sig), format!("continuation op #{i} {:?}: {}", op, f.detail)))?;
            sut.check("continuation").map_err(|f| fail(format!("continuation:after-{}:{}", op.kind(), f.sig), format!("continuation after op #{i} {:?}: {}", op, f.detail)))?;
        }
        Ok(())
    };
    if serve_variant {
        run(sut, &ops)?;
        let len = sut.model.length();
        let mut rep = crate::repl::Replica::create(&sut.key, sut.cache).map_err(|f| fail(format!("continuation:serve:{}", f.sig), f.detail))?;
        let held = (0..len).find(|i| sut.model.get(*i).is_some());
        let plan = crate::repl::Plan { upgrade: Some(len), block: held, ..Default::default() };
        crate::repl::round_from(sut.core.as_mut().unwrap(), &sut.model, &mut rep, &plan)
            .map_err(|f| fail(format!("continuation:serve:{}", f.sig), format!("a fresh replica could not replicate from the recovered writer (after clear + reopen): {}", f.detail)))?;
        return run(sut, &[Op::Append(tag + 3, 2), Op::Reopen]);
    }
    for (i, op) in ops.iter().enumerate() {
        sut.step(op).map_err(|f| fail(format!("continuation:{}:{}", op.kind(), f.sig), format!("continuation op #{i} {:?}: {}", op, f.detail)))?;
        sut.check("continuation").map_err(|f| fail(format!("continuation:after-{}:{}", op.kind(), f.sig), format!("continuation after op #{i} {:?}: {}", op, f.detail)))?;
    }
    Ok(())
}

/// Enumerate crash points (and tear cuts) of a recorded execution.
pub fn enumerate(ctx: &mut Ctx, rec: &Recorded, o: &CrashOpts, r: &mut Rng) {
    enumerate_with(ctx, rec, o, r, None)
}

pub fn enumerate_with(ctx: &mut Ctx, rec: &Recorded, o: &CrashOpts, r: &mut Rng, mut extra: ExtraCont<'_>) {
    let m = rec.journal.len();
    let mut files: Files = Default::default();
    let mut bad = 0;
    for k in 0..=m {
        let (c, win) = window(rec, k);
        let selected = o.only.as_ref().map(|v| v.contains(&k)).unwrap_or(true)
            && o.only_kind.map(|kd| k < m && rec.kinds[c] == kd).unwrap_or(true);
        if selected {
            let (allowed, allow_no_core): (Vec<&Model>, bool) = if k == m {
                (vec![&rec.states[c]], false)
            } else if c == 0 {
                // during the initial build(): "no core yet" is the before state
                (vec![&rec.states[0]], true)
            } else {
                (vec![&rec.states[c - 1], &rec.states[c]], false)
            };
            // cuts: 0 = clean crash
            let mut cuts: Vec<usize> = vec![0];
            if let Mode::Tear { random_cuts } = o.mode {
                cuts.clear();
                if k < m {
                    if let Mutn::Write { off, data } = &rec.journal[k].op {
                        cuts = tear_cuts(*off, data.len(), rec.journal[k].store, r, random_cuts);
                    }
                }
            }
            for cut in cuts {
                let mut f = files.clone();
                let mut win2 = win.clone();
                if cut > 0 {
                    if let Mutn::Write { off, data } = &rec.journal[k].op {
                        let _ = apply_mut(
                            &mut f[rec.journal[k].store],
                            &Mutn::Write {
                                off: *off,
                                data: data[..cut].to_vec(),
                            },
                        );
                        let st = rec.journal[k].store;
                        let cls = if st == crate::world::OPLOG && *off < 8192 {
                            let other = if *off < 4096 { 4096 } else { 0 };
                            let other_valid = files[3].len() > other && crate::refimpl::frame_at(&files[3][other..files[3].len().min(other + 4096)]).is_some();
                            format!("torn:header-slot{}:other-{}", if *off < 4096 { 0 } else { 1 }, if other_valid { "valid" } else { "absent" })
                        } else if st == crate::world::OPLOG {
                            format!("torn:entry:{}", if cut < 4 { "in-crc" } else if cut < 8 { "in-len" } else if cut == 8 { "after-leader" } else { "in-payload" })
                        } else {
                            format!("torn:{}", STORE_NAMES[st])
                        };
                        ctx.count(&cls);
                        win2 = format!("{win}|cut");
                    }
                }
                ctx.count(&format!("win:{win}"));
                ctx.count(&format!("crash_in:{}", win.split('|').next().unwrap_or("")));
                if k < m && rec.reopen_with_unflushed.get(c.wrapping_sub(1)).copied().unwrap_or(false) && win.contains("|start>") {
                    ctx.count("crash_first_op_after_reopen_with_unflushed");
                }
                ctx.add("crash_points", 1);
                let h = crate::rng::fnv(format!("{:?}|{k}|{cut}", rec.label).as_bytes());
                ctx.eval(Some(h));
                let res = recover_and_match(f, &allowed, allow_no_core, rec.key_seed, o.mask, o.get_cap, false)
                    .and_then(|s| match s {
                        Some(mut sut) if o.continuation => {
                            if let Some(x) = extra.as_mut() {
                                // on a copy of the recovered image, so that both continuations start
                                // from the recovered state
                                let files = crate::world::snapshot(&sut.world);
                                let w2 = World::from_files(files);
                                if let Ok(Ok(c2)) = build_core(&w2, None, true, CacheMode::None) {
                                    let mut s2 = Sut { world: w2, core: Some(c2), model: sut.model.clone(), key: sut.key.clone(), cache: CacheMode::None, get_cap: sut.get_cap, cmp_mask: sut.cmp_mask, steps: 0, plain_reopen_every: 0, reopens: 0 };
                                    x(&mut s2)?;
                                }
                            }
                            continuation(&mut sut)
                        }
                        _ => Ok(()),
                    });
                if res.is_ok() && k > 0 && k < m && k == m / 2 && ctx.evaluations % 5 == 0 {
                    ctx.sample(|| json!({"kind":"crash-point","history":rec.label,"journal_ops":m,"crash_after_op":k,"torn_bytes_of_next_write":cut,"window":win2,"verdict":"recovered to the before-or-after state, continuation ok"}));
                }
                if let Err(fl) = res {
                    bad += 1;
                    let sig = format!("{}:{}", win_class(&win2), fl.sig);
                    ctx.violate(
                        sig,
                        format!("crash point {k}/{m} (cut {cut}) in window {win2}: {}", fl.detail),
                        json!({"kind":"crash","label":rec.label,"key_seed":rec.key_seed,"prefix":k,"cut":cut,"window":win2}),
                    );
                    if bad > 6 {
                        return;
                    }
                }
            }
        }
        if k < m {
            let e = &rec.journal[k];
            let _ = apply_mut(&mut files[e.store], &e.op);
        }
    }
}

/// class of a window for signatures: call kind + the two storage ops
pub fn win_class(w: &str) -> String {
    w.to_string()
}

pub fn is_no_core_err(e: &HypercoreError) -> bool {
    matches!(e, HypercoreError::EmptyStorage { .. })
}
