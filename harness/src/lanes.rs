//! Sanitizer lanes (secondary oracle, thorough tier): Miri, ASan, TSan re-run reduced versions
//! of the monitors' workloads with the same oracles inside. A confirmed report is a violation of
//! the property whose workload triggered it; an unconfirmed one makes the run inconclusive.

use crate::framework::{out_dir, root_dir, LaneResult};
use serde_json::{json, Value};
use std::path::{Path, PathBuf};
use std::process::{Command, Stdio};

fn harness_dir() -> PathBuf {
    root_dir().join("harness")
}

fn excerpt(s: &str, needle: &[&str]) -> String {
    let lines: Vec<&str> = s.lines().collect();
    for (i, l) in lines.iter().enumerate() {
        if needle.iter().any(|n| l.contains(n)) {
            return lines[i..(i + 25).min(lines.len())].join("\n");
        }
    }
    lines.iter().rev().take(15).rev().cloned().collect::<Vec<_>>().join("\n")
}

/// First in-repo / in-harness frame of a sanitizer report, for de-duplication.
fn first_frame(report: &str) -> String {
    for l in report.lines() {
        let l = l.trim();
        if (l.contains("/repo/src/") || l.contains("hypercore::")) && !l.contains("hcverif") {
            let s: String = l.chars().filter(|c| !c.is_ascii_digit()).collect();
            return s.chars().take(100).collect();
        }
    }
    "unknown-frame".into()
}

/// Miri: `cargo +nightly miri run -- mini <name> <seed>` for several seeds.
pub fn miri_lane(prop: &str, name: &str, seeds: &[u64], many_seeds: Option<&str>) -> LaneResult {
    let mut lr = LaneResult { name: format!("miri:{name}"), ..Default::default() };
    let dir = harness_dir();
    let mut flags = "-Zmiri-disable-isolation".to_string();
    // The node cache (moka) pulls in crossbeam-epoch, whose tagged pointers go through
    // integer-to-pointer casts. Stacked Borrows cannot track those and reports a retag error
    // inside crossbeam-epoch (internal.rs) that is an artefact of that model; the cache
    // workloads therefore run under Tree Borrows, where they are clean (DESIGN.md section 5).
    if name.contains("cache") {
        flags.push_str(" -Zmiri-tree-borrows");
    }
    if let Some(ms) = many_seeds {
        flags.push_str(&format!(" -Zmiri-many-seeds={ms}"));
    }
    let run = |seed: u64| -> std::io::Result<std::process::Child> {
        Command::new("cargo")
            .current_dir(&dir)
            .env("MIRIFLAGS", &flags)
            .env("CARGO_NET_OFFLINE", "true")
            .args(["+nightly", "miri", "run", "--offline", "--target-dir", "target-miri", "--", "mini", name, &seed.to_string()])
            .stdout(Stdio::piped())
            .stderr(Stdio::piped())
            .spawn()
    };
    let handle = |seed: u64, out: std::process::Output, lr: &mut LaneResult| {
        let so = String::from_utf8_lossy(&out.stdout).to_string();
        let se = String::from_utf8_lossy(&out.stderr).to_string();
        if out.status.success() && so.contains("MINI OK") {
            let calls: u64 = so.split("calls=").last().and_then(|x| x.trim().split_whitespace().next().map(|y| y.parse().unwrap_or(0))).unwrap_or(0);
            *lr.counters.entry("runs_ok".into()).or_insert(0) += 1;
            *lr.counters.entry("public_calls".into()).or_insert(0) += calls * many_seeds.map(|_| 4).unwrap_or(1);
        } else if se.contains("Undefined Behavior") || se.contains("data race") || se.contains("Data race") || se.contains("memory leaked") {
            let rep = excerpt(&se, &["Undefined Behavior", "ata race", "memory leaked"]);
            lr.violations.push(json!({
                "sig": format!("miri:{}:{}", name, first_frame(&rep)),
                "detail": format!("Miri report while running mini workload {name} seed {seed}:\n{rep}"),
                "case_id": seed,
                "replay": {"kind":"miri","prop":prop,"workload":name,"seed":seed,"cmd":format!("cd <root>/harness && MIRIFLAGS='{flags}' cargo +nightly miri run --offline --target-dir target-miri -- mini {name} {seed}")},
            }));
        } else if so.contains("MINI VIOLATION") {
            let l = so.lines().find(|l| l.contains("MINI VIOLATION")).unwrap_or("");
            lr.violations.push(json!({
                "sig": format!("miri-oracle:{}", l.split("sig=").nth(1).unwrap_or("").split(" detail=").next().unwrap_or("")),
                "detail": format!("oracle inside the Miri run failed: {l}"),
                "case_id": seed,
                "replay": {"kind":"miri","prop":prop,"workload":name,"seed":seed},
            }));
        } else {
            lr.inconclusive.push(format!("miri run {name} seed {seed} failed without a recognisable report: {}", excerpt(&se, &["error"]).chars().take(400).collect::<String>()));
        }
    };
    // first run builds; the others run in parallel afterwards
    if let Some((&first, rest)) = seeds.split_first() {
        match run(first).and_then(|c| c.wait_with_output()) {
            Ok(o) => handle(first, o, &mut lr),
            Err(e) => {
                lr.inconclusive.push(format!("could not start cargo miri: {e}"));
                return lr;
            }
        }
        let children: Vec<(u64, std::process::Child)> = rest.iter().filter_map(|s| run(*s).ok().map(|c| (*s, c))).collect();
        for (s, c) in children {
            if let Ok(o) = c.wait_with_output() {
                handle(s, o, &mut lr);
            }
        }
    }
    lr
}

/// Run worker shards of a property under a sanitizer-instrumented build of the harness.
pub fn worker_lane(lane: &str, bin: &str, prop: &str, seed: u64, shards: u64, secs: u64, extra_env: &[(&str, &str)]) -> LaneResult {
    let mut lr = LaneResult { name: lane.to_string(), ..Default::default() };
    if !Path::new(bin).exists() {
        lr.inconclusive.push(format!("{lane} binary {bin} missing"));
        return lr;
    }
    let scratch = out_dir().join("scratch").join(format!("{lane}-{prop}-{}", std::process::id()));
    let _ = std::fs::create_dir_all(&scratch);
    let mut children = vec![];
    for i in 0..shards {
        let out = scratch.join(format!("s{i}"));
        let errf = std::fs::File::create(out.with_extension("stderr")).unwrap();
        let mut cmd = Command::new(bin);
        cmd.args(["worker", prop, "--tier", "quick", "--seed", &seed.to_string(), "--shard", &i.to_string(), "--nshards", &(shards * 4).to_string(), "--out", out.to_str().unwrap()])
            .env("HCVERIF_NO_RLIMIT", "1")
            .env("VERIF_RANDOM_SECS", secs.to_string())
            .stdout(Stdio::null())
            .stderr(Stdio::from(errf));
        for (k, v) in extra_env {
            cmd.env(k, v);
        }
        if let Ok(c) = cmd.spawn() {
            children.push((i, out, c));
        }
    }
    for (i, out, mut c) in children {
        let st = c.wait();
        let se = std::fs::read_to_string(out.with_extension("stderr")).unwrap_or_default();
        let status = std::fs::read_to_string(out.with_extension("status")).unwrap_or_default();
        let ok = matches!(&st, Ok(s) if s.success());
        if se.contains("AddressSanitizer") || se.contains("ThreadSanitizer") || se.contains("LeakSanitizer") {
            let rep = excerpt(&se, &["ERROR: AddressSanitizer", "WARNING: ThreadSanitizer", "ERROR: LeakSanitizer"]);
            lr.violations.push(json!({
                "sig": format!("{lane}:{}", first_frame(&rep)),
                "detail": format!("sanitizer report in shard {i} ({status}):\n{rep}"),
                "case_id": status.split_whitespace().nth(1).and_then(|s| s.parse::<u64>().ok()).unwrap_or(0),
                "replay": {"kind":"sanitizer","lane":lane,"prop":prop,"seed":seed,"shard":i,"nshards":shards*4},
            }));
            continue;
        }
        if !ok {
            lr.inconclusive.push(format!("{lane} shard {i} failed ({st:?}, {status}) without a sanitizer report: {}", se.lines().rev().take(3).collect::<Vec<_>>().join(" | ")));
            continue;
        }
        if let Ok(b) = std::fs::read(out.with_extension("json")) {
            if let Ok(v) = serde_json::from_slice::<Value>(&b) {
                *lr.counters.entry("evaluations".into()).or_insert(0) += v["evaluations"].as_u64().unwrap_or(0);
                *lr.counters.entry("shards_ok".into()).or_insert(0) += 1;
                if let Some(a) = v["violations"].as_array() {
                    for x in a {
                        let mut x = x.clone();
                        x["detail"] = json!(format!("[{lane} build] {}", x["detail"].as_str().unwrap_or("")));
                        lr.violations.push(x);
                    }
                }
            }
        }
    }
    let _ = std::fs::remove_dir_all(&scratch);
    lr
}

/// TSan: threaded stress of one SharedCore.
pub fn tsan_lane(prop: &str, bin: &str, seeds: &[u64]) -> LaneResult {
    let mut lr = LaneResult { name: "tsan:c15stress".into(), ..Default::default() };
    if !Path::new(bin).exists() {
        lr.inconclusive.push(format!("tsan binary {bin} missing"));
        return lr;
    }
    let children: Vec<(u64, std::process::Child)> = seeds
        .iter()
        .filter_map(|s| {
            Command::new(bin)
                .args(["mini", "c15stress", &s.to_string()])
                .env("TSAN_OPTIONS", "halt_on_error=1 exitcode=66")
                .stdout(Stdio::piped())
                .stderr(Stdio::piped())
                .spawn()
                .ok()
                .map(|c| (*s, c))
        })
        .collect();
    for (s, c) in children {
        let Ok(o) = c.wait_with_output() else { continue };
        let so = String::from_utf8_lossy(&o.stdout).to_string();
        let se = String::from_utf8_lossy(&o.stderr).to_string();
        if se.contains("ThreadSanitizer") {
            let rep = excerpt(&se, &["WARNING: ThreadSanitizer"]);
            lr.violations.push(json!({
                "sig": format!("tsan:{}", first_frame(&rep)),
                "detail": format!("ThreadSanitizer report (seed {s}):\n{rep}"),
                "case_id": s,
                "replay": {"kind":"tsan","prop":prop,"seed":s,"cmd":format!("{bin} mini c15stress {s}")},
            }));
        } else if o.status.success() && so.contains("MINI OK") {
            let calls: u64 = so.split("calls=").last().and_then(|x| x.trim().parse().ok()).unwrap_or(0);
            *lr.counters.entry("runs_ok".into()).or_insert(0) += 1;
            *lr.counters.entry("public_calls".into()).or_insert(0) += calls;
        } else if so.contains("MINI VIOLATION") {
            let l = so.lines().find(|l| l.contains("MINI VIOLATION")).unwrap_or("");
            lr.violations.push(json!({
                "sig": format!("tsan-oracle:{}", l.split("sig=").nth(1).unwrap_or("").split(" detail=").next().unwrap_or("")),
                "detail": format!("oracle inside the threaded stress failed: {l}"),
                "case_id": s,
                "replay": {"kind":"tsan","prop":prop,"seed":s},
            }));
        } else {
            lr.inconclusive.push(format!("tsan run seed {s} failed without a report ({:?}): {}", o.status, se.lines().rev().take(3).collect::<Vec<_>>().join(" | ")));
        }
    }
    lr
}

/// Cross-build trace-hash comparison for C14 (cache feature compiled out, sparse feature off).
pub fn tracehash_lane(seed: u64, n: u64) -> LaneResult {
    let mut lr = LaneResult { name: "cross-build".into(), ..Default::default() };
    let own = std::env::current_exe().unwrap();
    let alts = std::env::var("HCVERIF_ALT_BINS").unwrap_or_default();
    if alts.is_empty() {
        lr.inconclusive.push("HCVERIF_ALT_BINS not set (feature-off builds missing)".into());
        return lr;
    }
    let run = |bin: &Path| -> Option<Vec<String>> {
        let o = Command::new(bin).args(["tracehash", &seed.to_string(), &n.to_string()]).output().ok()?;
        if !o.status.success() {
            return None;
        }
        Some(String::from_utf8_lossy(&o.stdout).lines().map(|s| s.to_string()).collect())
    };
    let Some(base) = run(&own) else {
        lr.inconclusive.push("tracehash failed in the default build".into());
        return lr;
    };
    for spec in alts.split(',') {
        let Some((name, path)) = spec.split_once('=') else { continue };
        if !Path::new(path).exists() {
            lr.inconclusive.push(format!("alternative build {name} missing at {path}"));
            continue;
        }
        let Some(other) = run(Path::new(path)) else {
            lr.inconclusive.push(format!("tracehash failed in build {name}"));
            continue;
        };
        *lr.counters.entry(format!("scripts_compared_with_{name}")).or_insert(0) += base.len().min(other.len()) as u64;
        for (a, b) in base.iter().zip(other.iter()) {
            if a != b {
                lr.violations.push(json!({
                    "sig": format!("cross-build-differs:{name}"),
                    "detail": format!("trace hash of a script differs between the default build and the {name} build: '{a}' vs '{b}'"),
                    "case_id": a.split_whitespace().next().and_then(|s| s.parse::<u64>().ok()).unwrap_or(0),
                    "replay": {"kind":"tracehash","seed":seed,"line_default":a,"line_other":b,"build":name},
                }));
                break;
            }
        }
    }
    lr
}

pub fn lanes_for(prop: &str, thorough: bool, seed: u64) -> Vec<LaneResult> {
    let mut v = vec![];
    if !thorough || std::env::var("VERIF_SKIP_LANES").is_ok() {
        return v;
    }
    let asan = std::env::var("HCVERIF_ASAN_BIN").unwrap_or_default();
    let tsan = std::env::var("HCVERIF_TSAN_BIN").unwrap_or_default();
    let s = seed;
    match prop {
        "C01" => v.push(miri_lane(prop, "c01", &[s * 8 + 1, s * 8 + 2, s * 8 + 3, s * 8 + 5], None)),
        "C03" | "C04" => v.push(miri_lane(prop, "c03", &[s * 8 + 1, s * 8 + 2, s * 8 + 3, s * 8 + 4, s * 8 + 5, s * 8 + 6], None)),
        "C08" => {
            v.push(miri_lane(prop, "c01", &[s * 8, s * 8 + 4], None));
            v.push(worker_lane("asan", &asan, prop, s, 8, 20, &[("ASAN_OPTIONS", "abort_on_error=1:detect_leaks=1")]));
        }
        "C09" => {
            v.push(miri_lane(prop, "c03", &[s * 8 + 1, s * 8 + 2, s * 8 + 3, s * 8 + 4, s * 8 + 5, s * 8 + 6, s * 8 + 7, s * 8 + 9], None));
            v.push(worker_lane("asan", &asan, prop, s, 8, 20, &[("ASAN_OPTIONS", "abort_on_error=1:detect_leaks=1")]));
        }
        "C06" => v.push(worker_lane("asan", &asan, prop, s, 8, 20, &[("ASAN_OPTIONS", "abort_on_error=1:detect_leaks=1")])),
        "C11" => {
            v.push(miri_lane(prop, "c11", &[s * 8 + 1, s * 8 + 2, s * 8 + 3, s * 8 + 4], None));
            v.push(worker_lane("asan", &asan, prop, s, 8, 15, &[("ASAN_OPTIONS", "abort_on_error=1:detect_leaks=1")]));
        }
        "C13" => v.push(miri_lane(prop, "c13", &[s * 8 + 1, s * 8 + 2, s * 8 + 3, s * 8 + 4], None)),
        "C14" => {
            v.push(miri_lane(prop, "c01cache", &[s * 8 + 1, s * 8 + 2, s * 8 + 3], None));
            v.push(miri_lane(prop, "c03cache", &[s * 8 + 1, s * 8 + 2, s * 8 + 3], None));
            v.push(worker_lane("asan", &asan, prop, s, 8, 30, &[("ASAN_OPTIONS", "abort_on_error=1:detect_leaks=1")]));
            v.push(tracehash_lane(s, 400));
        }
        "C15" => {
            v.push(miri_lane(prop, "c15", &[s * 8 + 1, s * 8 + 2], Some("0..4")));
            v.push(tsan_lane(prop, &tsan, &[s * 8 + 1, s * 8 + 2, s * 8 + 3, s * 8 + 4, s * 8 + 5, s * 8 + 6, s * 8 + 7, s * 8 + 8]));
        }
        _ => {}
    }
    v
}
