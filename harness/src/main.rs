#![allow(dead_code)]
mod backends;
mod crash;
mod exec;
mod framework;
mod gen;
mod lanes;
mod mini;
mod model;
mod mutate;
mod ops;
mod props;
mod refimpl;
mod repl;
mod rng;
mod sched;
mod world;

use framework::{Tier, WorkerArgs};
use std::path::PathBuf;

fn arg_val(args: &[String], name: &str) -> Option<String> {
    args.iter().position(|a| a == name).and_then(|i| args.get(i + 1).cloned())
}

fn tier_of(s: &str) -> Tier {
    if s == "thorough" {
        Tier::Thorough
    } else {
        Tier::Quick
    }
}

fn main() {
    let args: Vec<String> = std::env::args().collect();
    if args.len() < 3 {
        eprintln!("usage: hcverif check <ID> [quick|thorough] | worker <ID> ... | replay <file>");
        std::process::exit(2);
    }
    match args[1].as_str() {
        "check" => {
            let spec = props::find(&args[2]).unwrap_or_else(|| {
                eprintln!("unknown property {}", args[2]);
                std::process::exit(2)
            });
            let tier = tier_of(
                &args
                    .get(3)
                    .cloned()
                    .or_else(|| std::env::var("VERIF_TIER").ok())
                    .unwrap_or_else(|| "quick".into()),
            );
            let lanes = lanes::lanes_for(spec.id, tier == Tier::Thorough, framework::seed_from_env());
            let code = framework::run_check(spec, tier, &lanes);
            std::process::exit(code);
        }
        "worker" => {
            let spec = props::find(&args[2]).expect("unknown property");
            let a = WorkerArgs {
                tier: tier_of(&arg_val(&args, "--tier").unwrap_or_default()),
                seed: arg_val(&args, "--seed").and_then(|s| s.parse().ok()).unwrap_or(1),
                shard: arg_val(&args, "--shard").and_then(|s| s.parse().ok()).unwrap_or(0),
                nshards: arg_val(&args, "--nshards").and_then(|s| s.parse().ok()).unwrap_or(1),
                out: PathBuf::from(arg_val(&args, "--out").expect("--out")),
                only_case: arg_val(&args, "--only-case").and_then(|s| s.parse().ok()),
                hang_mult: arg_val(&args, "--hang-mult").and_then(|s| s.parse().ok()).unwrap_or(1),
            };
            std::process::exit(framework::run_worker(spec, &a));
        }
        "mini" => {
            let seed = args.get(3).and_then(|s| s.parse().ok()).unwrap_or(1);
            std::process::exit(mini::run(&args[2], seed));
        }
        "tracehash" => {
            let seed = args.get(2).and_then(|s| s.parse().ok()).unwrap_or(1);
            let n = args.get(3).and_then(|s| s.parse().ok()).unwrap_or(100);
            exec::install_panic_hook();
            for l in props::c14::tracehash_lines(seed, n) {
                println!("{l}");
            }
            std::process::exit(0);
        }
        "vectors" => {
            // random vectors for the python cross-check of the reference's primitives
            let seed = args.get(2).and_then(|s| s.parse().ok()).unwrap_or(1);
            let mut r = rng::Rng::new(seed);
            for k in 0..96u64 {
                let n = if k < 4 { k as usize } else { r.below(400) as usize };
                let d = r.bytes(n);
                let hex: String = d.iter().map(|b| format!("{b:02x}")).collect();
                let leaf: String = refimpl::h_leaf(&d).iter().map(|b| format!("{b:02x}")).collect();
                println!("{} {:08x} {}", if hex.is_empty() { "-".to_string() } else { hex }, refimpl::crc32(&d), leaf);
            }
            std::process::exit(0);
        }
        "replay" => {
            let code = framework::run_replay(&args[2]);
            std::process::exit(code);
        }
        _ => {
            eprintln!("unknown command");
            std::process::exit(2);
        }
    }
}
