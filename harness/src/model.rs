//! Reference model of the log (an append-only list with clearable payloads) and the
//! observation taken through the public API.

use crate::exec;
use crate::rng::fnv;
use hypercore::Hypercore;

#[derive(Clone, Debug, PartialEq)]
pub struct Model {
    pub blocks: Vec<Option<Vec<u8>>>,
    pub sizes: Vec<u64>,
    pub writable: bool,
}

impl Model {
    pub fn new(writable: bool) -> Model {
        Model {
            blocks: vec![],
            sizes: vec![],
            writable,
        }
    }
    pub fn length(&self) -> u64 {
        self.blocks.len() as u64
    }
    pub fn byte_length(&self) -> u64 {
        self.sizes.iter().sum()
    }
    pub fn contiguous(&self) -> u64 {
        self.blocks
            .iter()
            .position(|b| b.is_none())
            .unwrap_or(self.blocks.len()) as u64
    }
    pub fn append_batch(&mut self, batch: &[Vec<u8>]) {
        for b in batch {
            self.sizes.push(b.len() as u64);
            self.blocks.push(Some(b.clone()));
        }
    }
    pub fn clear(&mut self, start: u64, end: u64) {
        if start >= end {
            return;
        }
        let e = end.min(self.length());
        for i in start..e {
            self.blocks[i as usize] = None;
        }
    }
    pub fn has(&self, i: u64) -> bool {
        (i as usize) < self.blocks.len() && i < u64::MAX && self.blocks[i as usize].is_some()
    }
    pub fn get(&self, i: u64) -> Option<&Vec<u8>> {
        if i >= self.length() {
            None
        } else {
            self.blocks[i as usize].as_ref()
        }
    }
}

#[derive(Clone, Debug, PartialEq)]
pub enum Got {
    None,
    Some { len: u64, h: u64 },
    Err(String),
}

impl Got {
    pub fn of(v: Option<&Vec<u8>>) -> Got {
        match v {
            None => Got::None,
            Some(b) => Got::Some {
                len: b.len() as u64,
                h: fnv(b),
            },
        }
    }
}

#[derive(Clone, Debug, PartialEq)]
pub struct Obs {
    pub length: u64,
    pub byte_length: u64,
    pub contiguous: u64,
    pub writeable: bool,
    pub fork: u64,
    pub has: Vec<(u64, bool)>,
    pub get: Vec<(u64, Got)>,
    pub panics: Vec<String>,
}

pub const FAR_PROBES: [u64; 6] = [0, 8191, 8192, 16384, 24576, 32767];

/// Indices probed: every i < length+2 when length <= cap, otherwise edges, page edges and a
/// stride sample; `has` additionally at far indices.
pub fn probe_indices(length: u64, get_cap: u64) -> (Vec<u64>, Vec<u64>) {
    let mut has: Vec<u64> = (0..length + 2).collect();
    let first_page_after = length / 32768 + 1;
    for p in first_page_after..first_page_after + 4 {
        for o in FAR_PROBES {
            has.push(p * 32768 + o);
        }
    }
    has.push(1 << 32);
    has.push((1 << 40) - 1);
    has.push(u64::MAX);
    let get: Vec<u64> = if length <= get_cap {
        let mut g: Vec<u64> = (0..length + 2).collect();
        g.push(1 << 32);
        g.push(u64::MAX);
        g
    } else {
        let mut g = vec![];
        let stride = (length / get_cap).max(1);
        let mut i = 0;
        while i < length {
            g.push(i);
            i += stride;
        }
        for e in [8191u64, 8192, 8193, 32767, 32768, 32769, 65535, 65536, 65537] {
            if e < length + 2 {
                g.push(e);
            }
        }
        for e in 0..4 {
            g.push(e);
            if length >= e {
                g.push(length - e);
            }
        }
        g.push(length + 1);
        g.push(u64::MAX);
        g.sort();
        g.dedup();
        g
    };
    (has, get)
}

/// Take an observation through the public API. A panic is folded into Got::Err("panic: ..").
pub fn observe(core: &mut Hypercore, get_cap: u64) -> Obs {
    let info = core.info();
    let (hi, gi) = probe_indices(info.length, get_cap);
    observe_at(core, &hi, &gi)
}

pub fn observe_at(core: &mut Hypercore, hi: &[u64], gi: &[u64]) -> Obs {
    let info = core.info();
    let mut has = Vec::with_capacity(hi.len());
    let mut panics = vec![];
    for &i in hi {
        match exec::guarded(|| core.has(i)) {
            Ok(b) => has.push((i, b)),
            Err(p) => {
                has.push((i, false));
                if panics.len() < 3 {
                    panics.push(format!("has({i}): {p}"));
                }
            }
        }
    }
    let mut get = Vec::with_capacity(gi.len());
    for &i in gi {
        let g = match exec::call(core.get(i)) {
            Ok(Ok(v)) => Got::of(v.as_ref()),
            Ok(Err(e)) => Got::Err(format!("{e}")),
            Err(p) => Got::Err(format!("panic: {p}")),
        };
        get.push((i, g));
    }
    Obs {
        length: info.length,
        byte_length: info.byte_length,
        contiguous: info.contiguous_length,
        writeable: info.writeable,
        fork: info.fork,
        has,
        get,
        panics,
    }
}

impl Model {
    pub fn expected(&self, hi: &[u64], gi: &[u64]) -> Obs {
        Obs {
            length: self.length(),
            byte_length: self.byte_length(),
            contiguous: self.contiguous(),
            writeable: self.writable,
            fork: 0,
            has: hi.iter().map(|&i| (i, self.has(i))).collect(),
            get: gi.iter().map(|&i| (i, Got::of(self.get(i)))).collect(),
            panics: vec![],
        }
    }
    pub fn expected_like(&self, o: &Obs) -> Obs {
        let hi: Vec<u64> = o.has.iter().map(|x| x.0).collect();
        let gi: Vec<u64> = o.get.iter().map(|x| x.0).collect();
        self.expected(&hi, &gi)
    }
}

pub const CMP_CONTIG: u32 = 1;
pub const CMP_HAS: u32 = 2;
pub const CMP_WRITABLE: u32 = 4;
pub const CMP_ALL: u32 = 7;

/// First difference between an observation and the expected one, as (class, detail).
pub fn diff(o: &Obs, e: &Obs, mask: u32) -> Option<(String, String)> {
    if let Some(p) = o.panics.first() {
        return Some((format!("has-panic:{}", exec::panic_sig(p)), p.clone()));
    }
    if o.length != e.length {
        return Some(("length".into(), format!("length {} expected {}", o.length, e.length)));
    }
    if o.byte_length != e.byte_length {
        return Some((
            "byte_length".into(),
            format!("byte_length {} expected {}", o.byte_length, e.byte_length),
        ));
    }
    if o.fork != e.fork {
        return Some(("fork".into(), format!("fork {} expected {}", o.fork, e.fork)));
    }
    if mask & CMP_WRITABLE != 0 && o.writeable != e.writeable {
        return Some((
            "writeable".into(),
            format!("writeable {} expected {}", o.writeable, e.writeable),
        ));
    }
    for (a, b) in o.get.iter().zip(e.get.iter()) {
        if a != b {
            let class = match (&a.1, &b.1) {
                (Got::Err(m), _) => format!("get-err:{}", err_class(m)),
                (Got::None, Got::Some { .. }) => "get-lost".to_string(),
                (Got::Some { .. }, Got::None) => "get-phantom".to_string(),
                _ => "get-wrong-bytes".to_string(),
            };
            return Some((class, format!("get({}) = {:?} expected {:?}", a.0, a.1, b.1)));
        }
    }
    if mask & CMP_HAS != 0 {
        for (a, b) in o.has.iter().zip(e.has.iter()) {
            if a != b {
                return Some((
                    if a.1 { "has-phantom".into() } else { "has-lost".into() },
                    format!("has({}) = {} expected {}", a.0, a.1, b.1),
                ));
            }
        }
    }
    if mask & CMP_CONTIG != 0 && o.contiguous != e.contiguous {
        return Some((
            if o.contiguous > e.contiguous { "contiguous-high".into() } else { "contiguous-low".into() },
            format!("contiguous_length {} expected {}", o.contiguous, e.contiguous),
        ));
    }
    None
}

/// Error message class: digits squeezed, truncated.
pub fn err_class(m: &str) -> String {
    let mut s: String = m
        .chars()
        .map(|c| if c.is_ascii_digit() { '#' } else { c })
        .collect();
    while s.contains("##") {
        s = s.replace("##", "#");
    }
    s.truncate(60);
    s
}
