//! History generators: bounded-exhaustive over a small alphabet, and seeded-random.

use crate::ops::Op;
use crate::rng::Rng;

pub const ALPHABET: usize = 8;
pub const SYMBOL_NAMES: [&str; 8] = [
    "append-empty",
    "append-tagged",
    "empty-batch",
    "batch3-with-empty",
    "clear-front",
    "clear-tail",
    "clear-beyond",
    "reopen",
];

/// Concretize a symbolic history. Returns None if a symbol is not applicable (clear on an
/// empty log), so that such sequences are skipped rather than duplicated.
pub fn concretize(symbols: &[u8]) -> Option<Vec<Op>> {
    let mut len: u64 = 0;
    let mut tag: u32 = 1;
    let mut ops = Vec::with_capacity(symbols.len());
    for &s in symbols {
        match s {
            0 => {
                ops.push(Op::Append(tag, 0));
                tag += 1;
                len += 1;
            }
            1 => {
                ops.push(Op::Append(tag, 4 + tag % 7));
                tag += 1;
                len += 1;
            }
            2 => ops.push(Op::Batch(vec![])),
            3 => {
                ops.push(Op::Batch(vec![(tag, 5), (tag + 1, 0), (tag + 2, 9)]));
                tag += 3;
                len += 3;
            }
            4 => {
                if len == 0 {
                    return None;
                }
                ops.push(Op::Clear(0, (len / 2).max(1)));
            }
            5 => {
                if len == 0 {
                    return None;
                }
                ops.push(Op::Clear(len - 1, len));
            }
            6 => {
                if len == 0 {
                    return None;
                }
                ops.push(Op::Clear(len / 2, len + 2));
            }
            7 => ops.push(Op::Reopen),
            _ => unreachable!(),
        }
    }
    Some(ops)
}

/// All symbol sequences of length `l` whose first `prefix.len()` symbols equal `prefix`.
pub fn for_each_sequence(prefix: &[u8], l: usize, alphabet: &[u8], mut f: impl FnMut(&[u8])) {
    let mut seq: Vec<u8> = prefix.to_vec();
    let free = l - prefix.len();
    let n = alphabet.len();
    let mut idx = vec![0usize; free];
    loop {
        seq.truncate(prefix.len());
        for &i in &idx {
            seq.push(alphabet[i]);
        }
        f(&seq);
        // increment
        let mut p = free;
        loop {
            if p == 0 {
                return;
            }
            p -= 1;
            idx[p] += 1;
            if idx[p] < n {
                break;
            }
            idx[p] = 0;
        }
    }
}

pub fn prefix_of_chunk(chunk: u64, plen: usize, alphabet: &[u8]) -> Vec<u8> {
    let n = alphabet.len() as u64;
    let mut v = vec![0u8; plen];
    let mut c = chunk;
    for i in (0..plen).rev() {
        v[i] = alphabet[(c % n) as usize];
        c /= n;
    }
    v
}

pub struct RandCfg {
    pub max_ops: u64,
    pub reopen_pct: u64,
    pub clear_pct: u64,
    pub read_pct: u64,
    pub max_block: u32,
    pub big_batch: u32,
    pub far_clear: bool,
}

impl Default for RandCfg {
    fn default() -> Self {
        RandCfg {
            max_ops: 60,
            reopen_pct: 12,
            clear_pct: 18,
            read_pct: 15,
            max_block: 5000,
            big_batch: 0,
            far_clear: true,
        }
    }
}

pub fn rand_block_len(r: &mut Rng, max_block: u32) -> u32 {
    match r.below(10) {
        0 => 0,
        1 => 1,
        2..=5 => 4 + r.below(12) as u32,
        6..=7 => 1 + r.below(200) as u32,
        8 => 1 + r.below(max_block.max(1) as u64) as u32,
        _ => {
            if max_block >= 12288 {
                12288
            } else {
                max_block
            }
        }
    }
}

/// Seeded-random history. Tracks the log length so that clears satisfy start < length.
pub fn random_history(r: &mut Rng, cfg: &RandCfg) -> Vec<Op> {
    let n = r.range(1, cfg.max_ops);
    let mut ops = Vec::with_capacity(n as usize);
    let mut len: u64 = 0;
    let mut tag: u32 = 1;
    for _ in 0..n {
        let x = r.below(100);
        if x < cfg.reopen_pct {
            ops.push(Op::Reopen);
        } else if x < cfg.reopen_pct + cfg.clear_pct && len > 0 {
            let s = r.below(len);
            let e = match r.below(10) {
                0 if cfg.far_clear => len + r.below(3 * 32768),
                1 => len + r.below(3),
                2 => len,
                _ => s + 1 + r.below((len - s).min(6)),
            };
            ops.push(Op::Clear(s, e.max(s + 1)));
        } else if x < cfg.reopen_pct + cfg.clear_pct + cfg.read_pct {
            let i = match r.below(6) {
                0 => len,
                1 => len + 1 + r.below(40000),
                2 => u64::MAX - r.below(2),
                _ => r.below(len.max(1)),
            };
            match r.below(3) {
                0 => ops.push(Op::Get(i)),
                1 => ops.push(Op::Has(i)),
                _ => ops.push(Op::Info),
            }
        } else if r.below(4) == 0 {
            let k = if cfg.big_batch > 0 && r.below(8) == 0 {
                r.range(1, cfg.big_batch as u64)
            } else {
                r.below(6)
            };
            let mut b = Vec::with_capacity(k as usize);
            for _ in 0..k {
                let l = if k > 50 { 1 } else { rand_block_len(r, cfg.max_block) };
                b.push((tag, l));
                tag += 1;
            }
            len += k;
            ops.push(Op::Batch(b));
        } else {
            ops.push(Op::Append(tag, rand_block_len(r, cfg.max_block)));
            tag += 1;
            len += 1;
        }
    }
    ops
}

/// Greedy delta-debugging: remove operations one at a time (from the end) as long as `pred`
/// (the same violation signature is reproduced) stays true. Returns a locally minimal history.
pub fn minimize(ops: &[Op], mut pred: impl FnMut(&[Op]) -> bool, max_runs: usize) -> Vec<Op> {
    let mut cur: Vec<Op> = ops.to_vec();
    let mut runs = 0;
    let mut progress = true;
    while progress && runs < max_runs {
        progress = false;
        let mut i = cur.len();
        while i > 0 && runs < max_runs {
            i -= 1;
            let mut cand = cur.clone();
            cand.remove(i);
            runs += 1;
            if pred(&cand) {
                cur = cand;
                progress = true;
            }
        }
    }
    cur
}
