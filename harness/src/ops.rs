//! Operation histories and the system under test bound to the model.

use crate::exec;
use crate::model::*;
use crate::rng::{block_bytes, Rng};
use crate::world::{self, World};
use hypercore::{Hypercore, HypercoreBuilder, HypercoreError, PartialKeypair, SigningKey};
use serde_json::{json, Value};
use std::sync::{Arc, Mutex};

#[derive(Clone, Debug, PartialEq)]
pub enum Op {
    /// blocks as (tag, len)
    Append(u32, u32),
    Batch(Vec<(u32, u32)>),
    Clear(u64, u64),
    Get(u64),
    Has(u64),
    Info,
    Reopen,
    MakeReadOnly,
}

impl Op {
    pub fn to_json(&self) -> Value {
        match self {
            Op::Append(t, l) => json!(["append", t, l]),
            Op::Batch(b) => json!(["batch", b.iter().map(|(t, l)| json!([t, l])).collect::<Vec<_>>()]),
            Op::Clear(s, e) => json!(["clear", s, e]),
            Op::Get(i) => json!(["get", i.to_string()]),
            Op::Has(i) => json!(["has", i.to_string()]),
            Op::Info => json!(["info"]),
            Op::Reopen => json!(["reopen"]),
            Op::MakeReadOnly => json!(["make_read_only"]),
        }
    }
    pub fn from_json(v: &Value) -> Option<Op> {
        let a = v.as_array()?;
        let u = |i: usize| -> Option<u64> {
            let x = a.get(i)?;
            x.as_u64().or_else(|| x.as_str().and_then(|s| s.parse().ok()))
        };
        Some(match a.first()?.as_str()? {
            "append" => Op::Append(u(1)? as u32, u(2)? as u32),
            "batch" => Op::Batch(
                a.get(1)?
                    .as_array()?
                    .iter()
                    .filter_map(|p| {
                        let p = p.as_array()?;
                        Some((p[0].as_u64()? as u32, p[1].as_u64()? as u32))
                    })
                    .collect(),
            ),
            "clear" => Op::Clear(u(1)?, u(2)?),
            "get" => Op::Get(u(1)?),
            "has" => Op::Has(u(1)?),
            "info" => Op::Info,
            "reopen" => Op::Reopen,
            "make_read_only" => Op::MakeReadOnly,
            _ => return None,
        })
    }
    pub fn kind(&self) -> &'static str {
        match self {
            Op::Append(..) => "append",
            Op::Batch(..) => "append_batch",
            Op::Clear(..) => "clear",
            Op::Get(..) => "get",
            Op::Has(..) => "has",
            Op::Info => "info",
            Op::Reopen => "reopen",
            Op::MakeReadOnly => "make_read_only",
        }
    }
    pub fn is_mutating(&self) -> bool {
        matches!(self, Op::Append(..) | Op::Batch(..) | Op::Clear(..) | Op::MakeReadOnly)
    }
}

/// The model after `op` succeeded.
pub fn model_after(m: &Model, op: &Op) -> Model {
    let mut m = m.clone();
    match op {
        Op::Append(..) | Op::Batch(..) => {
            if m.writable {
                m.append_batch(&Sut::materialize(op));
            }
        }
        Op::Clear(s, e) => m.clear(*s, *e),
        Op::MakeReadOnly => m.writable = false,
        _ => {}
    }
    m
}

pub fn ops_to_json(ops: &[Op]) -> Value {
    Value::Array(ops.iter().map(|o| o.to_json()).collect())
}
pub fn ops_from_json(v: &Value) -> Vec<Op> {
    v.as_array()
        .map(|a| a.iter().filter_map(Op::from_json).collect())
        .unwrap_or_default()
}
pub fn ops_hash(ops: &[Op]) -> u64 {
    crate::rng::fnv(serde_json::to_string(&ops_to_json(ops)).unwrap().as_bytes())
}

pub fn key_from_seed(seed: u64) -> SigningKey {
    let mut r = Rng::new(seed ^ 0x6b65_795f_7365_6564);
    let b = r.bytes(32);
    let mut a = [0u8; 32];
    a.copy_from_slice(&b);
    SigningKey::from_bytes(&a)
}

pub fn keypair(sk: &SigningKey, with_secret: bool) -> PartialKeypair {
    PartialKeypair {
        public: sk.verifying_key(),
        secret: if with_secret { Some(sk.clone()) } else { None },
    }
}

#[derive(Clone, Copy, Debug, PartialEq)]
pub enum CacheMode {
    None,
    Default,
    Tiny,
    /// a cache that forgets at once (time-to-live 0): every lookup misses, every insert is lost
    Volatile,
}

pub const CACHE_MODES: [CacheMode; 4] = [CacheMode::None, CacheMode::Default, CacheMode::Tiny, CacheMode::Volatile];

/// Build or open a core over the world. Outer Err = panic message.
pub fn build_core(
    world: &Arc<Mutex<World>>,
    key: Option<PartialKeypair>,
    open: bool,
    cache: CacheMode,
) -> Result<Result<Hypercore, HypercoreError>, String> {
    let world = world.clone();
    exec::call(async move {
        let storage = world::storage_of(&world).await?;
        let mut b = HypercoreBuilder::new(storage);
        // The builder's setters are independent of each other: the order in which they are called
        // must not matter. It is derived from the arguments (so that a case replays identically)
        // and covers all six orders over the run.
        const ORDERS: [[u8; 3]; 6] = [[0, 1, 2], [0, 2, 1], [1, 0, 2], [1, 2, 0], [2, 0, 1], [2, 1, 0]];
        let mut h = vec![open as u8, cache as u8];
        if let Some(k) = &key {
            h.extend_from_slice(k.public.as_bytes());
            h.push(k.secret.is_some() as u8);
        }
        let order = ORDERS[(crate::rng::fnv(&h) % 6) as usize];
        let mut key = key;
        for step in order {
            match step {
                0 => {
                    if let Some(k) = key.take() {
                        b = b.key_pair(k);
                    }
                }
                1 => {
                    if open {
                        b = b.open(true);
                    }
                }
                _ => {
                    #[cfg(feature = "cache")]
                    {
                        match cache {
                            CacheMode::None => {}
                            CacheMode::Default => {
                                b = b.node_cache_options(hypercore::CacheOptionsBuilder::new());
                            }
                            CacheMode::Tiny => {
                                b = b.node_cache_options(hypercore::CacheOptionsBuilder::new().max_capacity(200));
                            }
                            CacheMode::Volatile => {
                                b = b.node_cache_options(hypercore::CacheOptionsBuilder::new().time_to_live(std::time::Duration::ZERO).max_capacity(400));
                            }
                        }
                    }
                }
            }
        }
        #[cfg(not(feature = "cache"))]
        let _ = cache;
        b.build().await
    })
}

#[derive(Clone, Debug)]
pub struct Fail {
    pub sig: String,
    pub detail: String,
}

pub fn fail(sig: impl Into<String>, detail: impl Into<String>) -> Fail {
    Fail {
        sig: sig.into(),
        detail: detail.into(),
    }
}

pub fn err_sig(e: &HypercoreError) -> String {
    let v = match e {
        HypercoreError::BadArgument { .. } => "BadArgument",
        HypercoreError::NotWritable => "NotWritable",
        HypercoreError::InvalidSignature { .. } => "InvalidSignature",
        HypercoreError::InvalidChecksum { .. } => "InvalidChecksum",
        HypercoreError::EmptyStorage { .. } => "EmptyStorage",
        HypercoreError::CorruptStorage { .. } => "CorruptStorage",
        HypercoreError::InvalidOperation { .. } => "InvalidOperation",
        HypercoreError::IO { .. } => "IO",
    };
    format!("{v}:{}", err_class(&format!("{e}")))
}

pub struct Sut {
    pub world: Arc<Mutex<World>>,
    pub core: Option<Hypercore>,
    pub model: Model,
    pub key: SigningKey,
    pub cache: CacheMode,
    pub get_cap: u64,
    pub cmp_mask: u32,
    /// ops since the last flush phase reset (for coverage accounting)
    pub steps: u64,
    /// when > 0, every n-th reopen goes through a plain `build()` (no key pair, no open flag) on
    /// the existing storage instead of `open(true)`: the stored key and state must win
    pub plain_reopen_every: u64,
    pub reopens: u64,
}

impl Sut {
    pub fn create(key_seed: u64, world: Arc<Mutex<World>>, cache: CacheMode) -> Result<Sut, Fail> {
        let key = key_from_seed(key_seed);
        let core = match build_core(&world, Some(keypair(&key, true)), false, cache) {
            Ok(Ok(c)) => c,
            Ok(Err(e)) => return Err(fail(format!("build:err:{}", err_sig(&e)), format!("build failed: {e}"))),
            Err(p) => return Err(fail(format!("build:panic:{}", exec::panic_sig(&p)), p)),
        };
        Ok(Sut {
            world,
            core: Some(core),
            model: Model::new(true),
            key,
            cache,
            get_cap: 64,
            cmp_mask: CMP_ALL,
            steps: 0,
            plain_reopen_every: 0,
            reopens: 0,
        })
    }

    pub fn core(&mut self) -> &mut Hypercore {
        self.core.as_mut().expect("core present")
    }

    pub fn reopen(&mut self) -> Result<(), Fail> {
        self.core = None;
        self.reopens += 1;
        let plain = self.plain_reopen_every > 0 && self.reopens % self.plain_reopen_every == 0;
        match build_core(&self.world, None, !plain, self.cache) {
            Ok(Ok(c)) => {
                self.core = Some(c);
                Ok(())
            }
            Ok(Err(e)) => Err(fail(format!("reopen:err:{}", err_sig(&e)), format!("open(true) failed: {e}"))),
            Err(p) => Err(fail(format!("reopen:panic:{}", exec::panic_sig(&p)), p)),
        }
    }

    pub fn materialize(op: &Op) -> Vec<Vec<u8>> {
        match op {
            Op::Append(t, l) => vec![block_bytes(*t, *l as usize)],
            Op::Batch(b) => b.iter().map(|(t, l)| block_bytes(*t, *l as usize)).collect(),
            _ => vec![],
        }
    }

    /// Apply one operation to the core, compare its result with the model, update the model.
    pub fn step(&mut self, op: &Op) -> Result<(), Fail> {
        self.steps += 1;
        let k = op.kind();
        match op {
            Op::Append(..) | Op::Batch(..) => {
                let blocks = Self::materialize(op);
                let r = match op {
                    Op::Append(..) => exec::call(self.core().append(&blocks[0])),
                    _ => exec::call(self.core().append_batch(&blocks)),
                };
                match r {
                    Err(p) => return Err(fail(format!("{k}:panic:{}", exec::panic_sig(&p)), p)),
                    Ok(Err(e)) => {
                        if !self.model.writable && matches!(e, HypercoreError::NotWritable) {
                            return Ok(());
                        }
                        return Err(fail(format!("{k}:err:{}", err_sig(&e)), format!("{k} failed: {e}")));
                    }
                    Ok(Ok(out)) => {
                        if !self.model.writable {
                            return Err(fail(format!("{k}:accepted-on-readonly"), "append succeeded on a core without secret key"));
                        }
                        self.model.append_batch(&blocks);
                        if out.length != self.model.length() || out.byte_length != self.model.byte_length() {
                            return Err(fail(
                                format!("{k}:outcome"),
                                format!(
                                    "outcome ({},{}) expected ({},{})",
                                    out.length,
                                    out.byte_length,
                                    self.model.length(),
                                    self.model.byte_length()
                                ),
                            ));
                        }
                    }
                }
            }
            Op::Clear(s, e) => {
                match exec::call(self.core().clear(*s, *e)) {
                    Err(p) => return Err(fail(format!("clear:panic:{}", exec::panic_sig(&p)), p)),
                    Ok(Err(e2)) => return Err(fail(format!("clear:err:{}", err_sig(&e2)), format!("clear({s},{e}) failed: {e2}"))),
                    Ok(Ok(())) => self.model.clear(*s, *e),
                }
            }
            Op::Get(i) => {
                let exp = Got::of(self.model.get(*i));
                let got = match exec::call(self.core().get(*i)) {
                    Ok(Ok(v)) => Got::of(v.as_ref()),
                    Ok(Err(e)) => Got::Err(format!("{e}")),
                    Err(p) => return Err(fail(format!("get:panic:{}", exec::panic_sig(&p)), p)),
                };
                if got != exp {
                    let class = match (&got, &exp) {
                        (Got::Err(m), _) => format!("get-err:{}", err_class(m)),
                        (Got::None, _) => "get-lost".into(),
                        (_, Got::None) => "get-phantom".into(),
                        _ => "get-wrong-bytes".to_string(),
                    };
                    return Err(fail(class, format!("get({i}) = {got:?} expected {exp:?}")));
                }
            }
            Op::Has(i) => {
                let exp = self.model.has(*i);
                match exec::guarded(|| self.core.as_ref().unwrap().has(*i)) {
                    Ok(b) if b == exp => {}
                    Ok(b) => return Err(fail(if b { "has-phantom" } else { "has-lost" }, format!("has({i}) = {b} expected {exp}"))),
                    Err(p) => return Err(fail(format!("has-panic:{}", exec::panic_sig(&p)), p)),
                }
            }
            Op::Info => {
                let info = self.core().info();
                if info.length != self.model.length() || info.byte_length != self.model.byte_length() {
                    return Err(fail("info", format!("info {info:?} vs model ({},{})", self.model.length(), self.model.byte_length())));
                }
            }
            Op::Reopen => self.reopen()?,
            Op::MakeReadOnly => {
                let exp = self.model.writable;
                match exec::call(self.core().make_read_only()) {
                    Err(p) => return Err(fail(format!("make_read_only:panic:{}", exec::panic_sig(&p)), p)),
                    Ok(Err(e)) => return Err(fail(format!("make_read_only:err:{}", err_sig(&e)), format!("{e}"))),
                    Ok(Ok(b)) => {
                        if b != exp {
                            return Err(fail("make_read_only:result", format!("returned {b} expected {exp}")));
                        }
                        self.model.writable = false;
                    }
                }
            }
        }
        Ok(())
    }

    /// Full observation compared with the model.
    pub fn check(&mut self, when: &str) -> Result<Obs, Fail> {
        let cap = self.get_cap;
        let mask = self.cmp_mask;
        let o = observe(self.core(), cap);
        let e = self.model.expected_like(&o);
        // if the core reports a different length the probe sets differ; compare on the model's
        if let Some((c, d)) = diff(&o, &e, mask) {
            return Err(fail(format!("obs:{c}"), format!("{when}: {d}")));
        }
        Ok(o)
    }
}

/// Run a history on a fresh world with the model oracle after every step.
/// `on_step(sut, index)` lets callers add their own monitors.
pub fn run_history(
    key_seed: u64,
    ops: &[Op],
    cache: CacheMode,
    get_cap: u64,
    mask: u32,
    mut on_step: impl FnMut(&mut Sut, usize, &Op) -> Result<(), Fail>,
) -> Result<Sut, (usize, Fail)> {
    let world = World::new();
    let mut sut = Sut::create(key_seed, world, cache).map_err(|f| (0, f))?;
    sut.get_cap = get_cap;
    sut.cmp_mask = mask;
    sut.check("after build").map_err(|f| (0, f))?;
    for (i, op) in ops.iter().enumerate() {
        let before = if matches!(op, Op::Reopen) {
            let cap = sut.get_cap;
            Some(observe(sut.core(), cap))
        } else {
            None
        };
        sut.step(op).map_err(|mut f| {
            f.sig = format!("step:{}", f.sig);
            (i, f)
        })?;
        let o = sut
            .check(&format!("after op #{i} {}", op.kind()))
            .map_err(|mut f| {
                f.sig = format!("after-{}:{}", op.kind(), f.sig);
                (i, f)
            })?;
        if let Some(b) = before {
            if b != o {
                return Err((
                    i,
                    fail(
                        "reopen-changed-observation",
                        format!("before {:?} after {:?}", short_obs(&b), short_obs(&o)),
                    ),
                ));
            }
        }
        on_step(&mut sut, i, op).map_err(|f| (i, f))?;
    }
    Ok(sut)
}

pub fn short_obs(o: &Obs) -> String {
    format!(
        "len={} bytes={} contig={} w={} has1={}",
        o.length,
        o.byte_length,
        o.contiguous,
        o.writeable,
        o.has.iter().filter(|x| x.1).count()
    )
}
