//! Writer/replica pair helpers: well-formed requests (W1-W5 of DESIGN.md §2.4), honest
//! rounds with the model oracle.

use crate::exec;
use crate::model::*;
use crate::ops::{self, build_core, fail, keypair, CacheMode, Fail, Op, Sut};
use crate::refimpl;
use crate::rng::Rng;
use crate::world::World;
use hypercore::{Hypercore, HypercoreError, Proof, RequestBlock, RequestSeek, RequestUpgrade};
use serde_json::{json, Value};
use std::sync::{Arc, Mutex};

/// coverage: block + seek requests whose seek position lies in another block of the proven sub-tree
pub static SEEKS_ELSEWHERE_IN_SUBTREE: std::sync::atomic::AtomicU64 = std::sync::atomic::AtomicU64::new(0);

#[derive(Clone, Debug, PartialEq, Default)]
pub struct Plan {
    pub block: Option<u64>,
    /// flat-tree node index
    pub hash: Option<u64>,
    pub seek: Option<u64>,
    /// upgrade length (start is always the replica's length)
    pub upgrade: Option<u64>,
    /// with a block: choose the seek position anywhere inside the sub-tree spanned by the proof
    /// (W5), this value modulo the sub-tree's byte size; `seek` is the fallback
    pub seek_sub: Option<u64>,
}

impl Plan {
    pub fn to_json(&self) -> Value {
        json!({"block": self.block, "hash": self.hash, "seek": self.seek, "upgrade": self.upgrade, "seek_sub": self.seek_sub})
    }
    pub fn from_json(v: &Value) -> Plan {
        Plan {
            block: v["block"].as_u64(),
            hash: v["hash"].as_u64(),
            seek: v["seek"].as_u64(),
            upgrade: v["upgrade"].as_u64(),
            seek_sub: v["seek_sub"].as_u64(),
        }
    }
}

#[derive(Clone, Debug)]
pub struct Request {
    pub block: Option<RequestBlock>,
    pub hash: Option<RequestBlock>,
    pub seek: Option<RequestSeek>,
    pub upgrade: Option<RequestUpgrade>,
}

pub struct Replica {
    pub world: Arc<Mutex<World>>,
    pub core: Option<Hypercore>,
    pub model: Model,
    pub cache: CacheMode,
}

impl Replica {
    pub fn create(writer_key: &hypercore::SigningKey, cache: CacheMode) -> Result<Replica, Fail> {
        let world = World::new();
        Self::create_on(world, writer_key, cache)
    }
    pub fn create_on(world: Arc<Mutex<World>>, writer_key: &hypercore::SigningKey, cache: CacheMode) -> Result<Replica, Fail> {
        let core = match build_core(&world, Some(keypair(writer_key, false)), false, cache) {
            Ok(Ok(c)) => c,
            Ok(Err(e)) => return Err(fail(format!("replica-build:err:{}", ops::err_sig(&e)), format!("{e}"))),
            Err(p) => return Err(fail(format!("replica-build:panic:{}", exec::panic_sig(&p)), p)),
        };
        Ok(Replica {
            world,
            core: Some(core),
            model: Model::new(false),
            cache,
        })
    }
    pub fn core(&mut self) -> &mut Hypercore {
        self.core.as_mut().unwrap()
    }
    pub fn reopen(&mut self) -> Result<(), Fail> {
        self.core = None;
        match build_core(&self.world, None, true, self.cache) {
            Ok(Ok(c)) => {
                self.core = Some(c);
                Ok(())
            }
            Ok(Err(e)) => Err(fail(format!("replica-reopen:err:{}", ops::err_sig(&e)), format!("replica open(true) failed: {e}"))),
            Err(p) => Err(fail(format!("replica-reopen:panic:{}", exec::panic_sig(&p)), p)),
        }
    }
    pub fn check(&mut self, mask: u32, cap: u64, when: &str) -> Result<Obs, Fail> {
        let o = observe(self.core(), cap);
        let e = self.model.expected_like(&o);
        if let Some((c, d)) = diff(&o, &e, mask) {
            return Err(fail(format!("replica-obs:{c}"), format!("{when}: {d}")));
        }
        Ok(o)
    }
    /// Fill in the node counts from the replica's own missing-node queries (W4).
    pub fn make_request(&mut self, plan: &Plan) -> Result<Request, Fail> {
        let len = self.core().info().length;
        let mut req = Request {
            block: None,
            hash: None,
            seek: plan.seek.map(|b| RequestSeek { bytes: b }),
            upgrade: plan.upgrade.map(|l| RequestUpgrade { start: len, length: l }),
        };
        if let Some(i) = plan.block {
            let n = match exec::call(self.core().missing_nodes(i)) {
                Ok(Ok(n)) => n,
                Ok(Err(e)) => return Err(fail(format!("missing_nodes:err:{}", ops::err_sig(&e)), format!("missing_nodes({i}): {e}"))),
                Err(p) => return Err(fail(format!("missing_nodes:panic:{}", exec::panic_sig(&p)), p)),
            };
            req.block = Some(RequestBlock { index: i, nodes: n });
            if let (Some(f), true) = (plan.seek_sub, plan.upgrade.is_none() || i < len) {
                // ancestor of leaf 2i, n levels up: leaves [lo, hi]
                let w = 1u64 << n.min(40);
                let lo = i / w * w;
                let hi = lo + w - 1;
                if hi < len && (hi as usize) < self.model.sizes.len() {
                    let start: u64 = self.model.sizes[..lo as usize].iter().sum();
                    let size: u64 = self.model.sizes[lo as usize..=hi as usize].iter().sum();
                    if size > 0 {
                        let pos = start + f % size;
                        let own: u64 = self.model.sizes[..i as usize].iter().sum();
                        if pos < own || pos >= own + self.model.sizes[i as usize] {
                            SEEKS_ELSEWHERE_IN_SUBTREE.fetch_add(1, std::sync::atomic::Ordering::Relaxed);
                        }
                        req.seek = Some(RequestSeek { bytes: pos });
                    }
                }
            }
        }
        if let Some(j) = plan.hash {
            let n = match exec::call(self.core().missing_nodes_from_merkle_tree_index(j)) {
                Ok(Ok(n)) => n,
                Ok(Err(e)) => return Err(fail(format!("missing_nodes:err:{}", ops::err_sig(&e)), format!("missing_nodes_from_merkle_tree_index({j}): {e}"))),
                Err(p) => return Err(fail(format!("missing_nodes:panic:{}", exec::panic_sig(&p)), p)),
            };
            req.hash = Some(RequestBlock { index: j, nodes: n });
        }
        Ok(req)
    }
    /// Update the model after an accepted proof created when the writer model was `w`.
    pub fn model_accept(&mut self, proof: &Proof, w: &Model) {
        if proof.upgrade.is_some() {
            let wl = w.length() as usize;
            self.model.sizes = w.sizes[..wl].to_vec();
            while self.model.blocks.len() < wl {
                self.model.blocks.push(None);
            }
        }
        if let Some(b) = &proof.block {
            if (b.index as usize) < self.model.blocks.len() {
                self.model.blocks[b.index as usize] = Some(b.value.clone());
            }
        }
    }
}

pub fn create_proof(core: &mut Hypercore, req: &Request) -> Result<Result<Option<Proof>, HypercoreError>, String> {
    exec::call(core.create_proof(req.block.clone(), req.hash.clone(), req.seek.clone(), req.upgrade.clone()))
}

pub fn apply_proof(core: &mut Hypercore, proof: &Proof) -> Result<Result<bool, HypercoreError>, String> {
    exec::call(core.verify_and_apply_proof(proof))
}

pub struct Pair {
    pub writer: Sut,
    pub replica: Replica,
}

#[derive(Debug)]
pub enum RoundResult {
    Applied(Proof),
    /// writer answered None because the block is cleared there
    NoProofCleared,
}

impl Pair {
    pub fn new(key_seed: u64, cache: CacheMode) -> Result<Pair, Fail> {
        let writer = Sut::create(key_seed, World::new(), cache)?;
        let replica = Replica::create(&writer.key, cache)?;
        Ok(Pair { writer, replica })
    }

    /// One honest round for a well-formed plan; oracle on the immediate results.
    pub fn round(&mut self, plan: &Plan) -> Result<RoundResult, Fail> {
        round(&mut self.writer, &mut self.replica, plan)
    }

    /// Fetch everything the replica is still missing; must terminate with replica == writer on
    /// all non-cleared blocks.
    pub fn complete(&mut self) -> Result<u64, Fail> {
        complete(&mut self.writer, &mut self.replica)
    }
}

pub fn round(writer: &mut Sut, replica: &mut Replica, plan: &Plan) -> Result<RoundResult, Fail> {
    round_from(writer.core.as_mut().unwrap(), &writer.model, replica, plan)
}

/// One honest round served by any core that holds the data (`src_model` = what it holds): the
/// writer, or a replica that acts as the source for a further replica.
pub fn round_from(src_core: &mut Hypercore, src_model: &Model, replica: &mut Replica, plan: &Plan) -> Result<RoundResult, Fail> {
    let req = replica.make_request(plan)?;
    let proof = match create_proof(src_core, &req) {
        Err(p) => return Err(fail(format!("create_proof:panic:{}", exec::panic_sig(&p)), format!("{p}; request {req:?}"))),
        Ok(Err(e)) => return Err(fail(format!("create_proof:err:{}", ops::err_sig(&e)), format!("create_proof refused a well-formed request {req:?}: {e}"))),
        Ok(Ok(None)) => {
            let cleared = plan.block.map(|i| src_model.get(i).is_none()).unwrap_or(false);
            if cleared {
                return Ok(RoundResult::NoProofCleared);
            }
            return Err(fail("create_proof:none-unexpected", format!("create_proof returned None for {req:?} although the block is held")));
        }
        Ok(Ok(Some(p))) => p,
    };
    if let Some(i) = plan.block {
        if src_model.get(i).is_none() {
            return Err(fail("create_proof:proof-for-cleared-block", format!("writer produced a proof for cleared block {i}")));
        }
    }
    match apply_proof(replica.core(), &proof) {
        Err(p) => Err(fail(format!("verify:panic:{}", exec::panic_sig(&p)), format!("{p}; request {req:?}"))),
        Ok(Err(e)) => Err(fail(format!("verify:err:{}", ops::err_sig(&e)), format!("replica rejected an honest proof for {req:?}: {e}"))),
        Ok(Ok(false)) => Err(fail("verify:refused-false", format!("replica answered false to an honest proof for {req:?}"))),
        Ok(Ok(true)) => {
            replica.model_accept(&proof, src_model);
            Ok(RoundResult::Applied(proof))
        }
    }
}

pub fn complete(writer: &mut Sut, replica: &mut Replica) -> Result<u64, Fail> {
    complete_from(writer.core.as_mut().unwrap(), &writer.model, replica)
}

pub fn complete_from(src_core: &mut Hypercore, src_model: &Model, replica: &mut Replica) -> Result<u64, Fail> {
    let mut rounds = 0;
    let wl = src_model.length();
    let rl = replica.model.length();
    if rl < wl {
        round_from(src_core, src_model, replica, &Plan { upgrade: Some(wl - rl), ..Default::default() }).map_err(|f| fail(format!("complete:{}", f.sig), f.detail))?;
        rounds += 1;
    }
    for i in 0..wl {
        if replica.model.get(i).is_none() && src_model.get(i).is_some() {
            round_from(src_core, src_model, replica, &Plan { block: Some(i), ..Default::default() }).map_err(|f| fail(format!("complete:{}", f.sig), f.detail))?;
            rounds += 1;
        }
    }
    for i in 0..wl {
        let a = replica.model.get(i);
        let b = src_model.get(i);
        if b.is_some() && a != b {
            return Err(fail("complete:not-converged", format!("block {i} differs after completion")));
        }
    }
    Ok(rounds)
}

/// Shape class of a plan (for coverage accounting).
pub fn shape(plan: &Plan, replica_len: u64, writer_len: u64) -> String {
    let kind = if plan.block.is_some() && plan.seek.is_some() {
        "block+seek"
    } else if plan.hash.is_some() && plan.seek.is_some() {
        "hash+seek"
    } else if plan.block.is_some() {
        "block"
    } else if plan.hash.is_some() {
        "hash"
    } else if plan.seek.is_some() {
        "seek"
    } else {
        "none"
    };
    let upg = match plan.upgrade {
        None => "noupg",
        Some(l) if replica_len + l == writer_len => "full",
        Some(_) => "partial",
    };
    let target = plan.upgrade.map(|l| replica_len + l).unwrap_or(replica_len);
    let leaf = plan.block.map(|b| 2 * b).or(plan.hash.map(|h| refimpl::ft_span(h).0));
    let root = match leaf {
        None => "na",
        Some(l) => {
            let roots = refimpl::ft_roots(target.max(1));
            match roots.iter().position(|r| {
                let (lo, hi) = refimpl::ft_span(*r);
                lo <= l && l <= hi
            }) {
                Some(0) => "first",
                Some(_) => "nonfirst",
                None => "out",
            }
        }
    };
    let inside = match (plan.upgrade, plan.block.or(plan.hash.map(|h| refimpl::ft_span(h).0 / 2))) {
        (Some(_), Some(b)) if b >= replica_len => ":in-upgrade",
        _ => "",
    };
    format!("{kind}:{upg}:{root}{inside}")
}

/// All tree nodes that a replica can coherently name (W3): full nodes whose span lies entirely
/// below `lo_len` or entirely inside [lo_len, hi_len).
pub fn nameable_nodes(lo_len: u64, hi_len: u64) -> Vec<u64> {
    let mut v = vec![];
    let max = 2 * hi_len;
    let mut i = 0;
    while i < max {
        let (lo, hi) = refimpl::ft_span(i);
        let (lo, hi) = (lo / 2, hi / 2);
        if hi < hi_len && (hi < lo_len || lo >= lo_len) {
            v.push(i);
        }
        i += 1;
    }
    v
}

/// A random well-formed plan for the current pair state.
pub fn random_plan(r: &mut Rng, rl: u64, wl: u64, w: &Model, rm: &Model) -> Plan {
    let mut p = Plan::default();
    if rl < wl {
        let gap = wl - rl;
        p.upgrade = Some(if r.chance(1, 2) { gap } else { r.range(1, gap) });
    }
    let target = p.upgrade.map(|l| rl + l).unwrap_or(rl);
    let kind = r.below(10);
    if target == 0 {
        return p;
    }
    match kind {
        0..=4 => {
            p.block = Some(r.below(target));
        }
        5..=6 => {
            let nodes = nameable_nodes(rl, target);
            if !nodes.is_empty() {
                p.hash = Some(*r.pick(&nodes));
            }
        }
        7 => {
            // seek alone: bytes in [0, byte length of target]; half of the time at a place where
            // the descent changes course: a block boundary (+-1), or the byte size of one of the
            // roots of the target or of the replica's current tree taken as a position
            let bl: u64 = w.sizes[..target as usize].iter().sum();
            p.seek = Some(if r.chance(1, 2) {
                r.range(0, bl)
            } else {
                let mut cands: Vec<u64> = vec![];
                let j = r.below(target + 1) as usize;
                let pre: u64 = w.sizes[..j].iter().sum();
                cands.extend([pre, pre.saturating_sub(1), (pre + 1).min(bl)]);
                for l in [target, rl] {
                    // root spans of a tree of l leaves: the binary decomposition of l
                    let mut start = 0u64;
                    let mut bit = 1u64 << 62;
                    while bit > 0 {
                        if l & bit != 0 {
                            let size: u64 = w.sizes[start as usize..(start + bit) as usize].iter().sum();
                            cands.extend([size, size.saturating_sub(1), size + 1]);
                            start += bit;
                        }
                        bit >>= 1;
                    }
                }
                let c = *r.pick(&cands);
                c.min(bl)
            });
        }
        8 => {
            // seek + block below upgrade.start (or no upgrade): bytes inside the block's subtree
            if rl > 0 {
                let b = r.below(rl);
                p.block = Some(b);
                let off: u64 = rm.sizes[..b as usize].iter().sum();
                let sz = rm.sizes[b as usize];
                // W5: bytes strictly inside the addressed sub-tree; an empty block has no byte
                // of its own, so no seek is combined with it
                if sz > 0 {
                    p.seek = Some(off + r.below(sz));
                }
                // half of the time the seek may land anywhere in the sub-tree that the proof
                // spans (the block's ancestor as many levels up as the replica misses nodes),
                // resolved in make_request, where that count is known
                if r.chance(1, 2) {
                    p.seek_sub = Some(r.next_u64() >> 1);
                }
            }
        }
        _ => {}
    }
    if p.block.is_none() && p.hash.is_none() && p.seek.is_none() && p.upgrade.is_none() {
        p.block = Some(r.below(target));
    }
    p
}

pub fn apply_writer_ops(w: &mut Sut, ops: &[Op]) -> Result<(), Fail> {
    for op in ops {
        w.step(op).map_err(|f| fail(format!("writer:{}", f.sig), f.detail))?;
    }
    Ok(())
}
