//! SplitMix64 generator owned by the harness (no `rand`), so every random choice is
//! reproducible from VERIF_SEED.

#[derive(Clone, Debug)]
pub struct Rng(pub u64);

impl Rng {
    pub fn new(seed: u64) -> Self {
        Rng(seed ^ 0x9E37_79B9_7F4A_7C15)
    }
    pub fn next_u64(&mut self) -> u64 {
        self.0 = self.0.wrapping_add(0x9E37_79B9_7F4A_7C15);
        let mut z = self.0;
        z = (z ^ (z >> 30)).wrapping_mul(0xBF58_476D_1CE4_E5B9);
        z = (z ^ (z >> 27)).wrapping_mul(0x94D0_49BB_1331_11EB);
        z ^ (z >> 31)
    }
    /// uniform in 0..n (n > 0)
    pub fn below(&mut self, n: u64) -> u64 {
        if n == 0 {
            return 0;
        }
        self.next_u64() % n
    }
    pub fn range(&mut self, lo: u64, hi_incl: u64) -> u64 {
        lo + self.below(hi_incl - lo + 1)
    }
    pub fn chance(&mut self, num: u64, den: u64) -> bool {
        self.below(den) < num
    }
    pub fn pick<'a, T>(&mut self, xs: &'a [T]) -> &'a T {
        &xs[self.below(xs.len() as u64) as usize]
    }
    pub fn fork(&mut self, label: u64) -> Rng {
        Rng::new(self.next_u64() ^ label.wrapping_mul(0xD6E8_FEB8_6659_FD93))
    }
    pub fn bytes(&mut self, n: usize) -> Vec<u8> {
        let mut v = Vec::with_capacity(n);
        while v.len() < n {
            let x = self.next_u64().to_le_bytes();
            let take = (n - v.len()).min(8);
            v.extend_from_slice(&x[..take]);
        }
        v
    }
    pub fn shuffle<T>(&mut self, xs: &mut [T]) {
        for i in (1..xs.len()).rev() {
            let j = self.below(i as u64 + 1) as usize;
            xs.swap(i, j);
        }
    }
}

/// Deterministic block payload for (tag, len): unique per tag, never all-zero for len>0.
pub fn block_bytes(tag: u32, len: usize) -> Vec<u8> {
    let mut v = Vec::with_capacity(len);
    let t = tag.to_le_bytes();
    let mut r = Rng::new(0xB10C_0000_0000_0000 ^ tag as u64);
    for i in 0..len {
        if i < 4 {
            v.push(t[i] | if i == 0 { 0x80 } else { 0 });
        } else {
            if i % 8 == 4 {
                r.next_u64();
            }
            v.push((r.0 >> ((i % 8) * 8)) as u8 | 1);
        }
    }
    v
}

pub fn fnv(data: &[u8]) -> u64 {
    let mut h: u64 = 0xcbf29ce484222325;
    for b in data {
        h ^= *b as u64;
        h = h.wrapping_mul(0x100000001b3);
    }
    h
}
