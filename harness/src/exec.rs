//! Minimal executor and panic capture.

use std::cell::RefCell;
use std::future::Future;
use std::panic::{catch_unwind, AssertUnwindSafe};
use std::pin::Pin;
use std::sync::atomic::{AtomicU64, Ordering};
use std::sync::Arc;
use std::task::{Context, Poll, Wake, Waker};

struct Noop;
impl Wake for Noop {
    fn wake(self: Arc<Self>) {}
}

pub static POLLS: AtomicU64 = AtomicU64::new(0);
/// progress counter watched by the hang watchdog
pub static PROGRESS: AtomicU64 = AtomicU64::new(0);

/// Busy-polling block_on. All futures of the instrumented backend are ready (or re-wake
/// themselves at once), so this never spins on a truly pending future; a poll budget guards
/// against a future that never completes (reported as a hang by the caller).
pub fn block_on<F: Future>(fut: F) -> F::Output {
    match block_on_budget(fut, u64::MAX) {
        Some(v) => v,
        None => unreachable!(),
    }
}

pub fn block_on_budget<F: Future>(fut: F, max_polls: u64) -> Option<F::Output> {
    let waker = Waker::from(Arc::new(Noop));
    let mut cx = Context::from_waker(&waker);
    let mut fut = Box::pin(fut);
    let mut n = 0u64;
    loop {
        POLLS.fetch_add(1, Ordering::Relaxed);
        match Pin::as_mut(&mut fut).poll(&mut cx) {
            Poll::Ready(v) => return Some(v),
            Poll::Pending => {
                n += 1;
                if n >= max_polls {
                    return None;
                }
            }
        }
    }
}

thread_local! {
    static LAST_PANIC: RefCell<Option<String>> = RefCell::new(None);
}

pub fn install_panic_hook() {
    std::panic::set_hook(Box::new(|info| {
        let loc = info
            .location()
            .map(|l| format!("{}:{}", l.file(), l.line()))
            .unwrap_or_default();
        let msg = if let Some(s) = info.payload().downcast_ref::<&str>() {
            s.to_string()
        } else if let Some(s) = info.payload().downcast_ref::<String>() {
            s.clone()
        } else {
            "<non-string panic>".to_string()
        };
        LAST_PANIC.with(|p| *p.borrow_mut() = Some(format!("{msg} @ {loc}")));
    }));
}

/// Outcome of a guarded call: the value or the panic message with location.
pub fn guarded<T>(f: impl FnOnce() -> T) -> Result<T, String> {
    LAST_PANIC.with(|p| *p.borrow_mut() = None);
    match catch_unwind(AssertUnwindSafe(f)) {
        Ok(v) => Ok(v),
        Err(_) => Err(LAST_PANIC
            .with(|p| p.borrow_mut().take())
            .unwrap_or_else(|| "<panic>".to_string())),
    }
}

/// Run an async public call to completion under catch_unwind.
pub fn call<F: Future>(fut: F) -> Result<F::Output, String> {
    PROGRESS.fetch_add(1, Ordering::Relaxed);
    guarded(|| block_on(fut))
}

/// Strip line numbers / volatile parts from a panic message to make a class signature.
pub fn panic_sig(msg: &str) -> String {
    // "message @ path:line" -> "message-prefix @ file"
    let (m, loc) = match msg.rsplit_once(" @ ") {
        Some((m, l)) => (m, l),
        None => (msg, ""),
    };
    let file = loc.rsplit('/').next().unwrap_or("");
    let file = file.split(':').next().unwrap_or("");
    let mut mm: String = m
        .chars()
        .map(|c| if c.is_ascii_digit() { '#' } else { c })
        .collect();
    while mm.contains("##") {
        mm = mm.replace("##", "#");
    }
    mm.truncate(80);
    format!("{mm} @ {file}")
}
