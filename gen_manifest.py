#!/usr/bin/env python3
"""Generates /verif/MANIFEST.json from the table below (kept in one place so that the
manifest stays valid and in step with the checks that exist)."""
import json, sys

CHECKS = {
    "C01": ("exploration", "runtime monitor: reference list model compared after every public call, bounded-exhaustive + seeded-random histories with reopen",
            "Held on every history executed: all symbol sequences up to the bound plus random histories, with the model oracle after every operation and reopen-invariance of the full observation. Exploration is the right level: the property quantifies over unbounded histories and inputs; nothing is proved.",
            "instrumented in-memory backend has the semantics of the stock backends (checked differentially by C14); model is a 40-line list", "3 C01"),
    "C02": ("fault_enumeration", "crash enumeration over the storage-operation journal with before-or-after model oracle and usability continuations (operations + reopens; a fresh replica replicating from the recovered writer)",
            "Every prefix of the journal of mutating storage operations of each recorded history (writer, replica, make_read_only) is materialised, reopened and compared with the model before/after the interrupted call, then a continuation must satisfy the model. Exhaustive per history over crash points; histories bounded-exhaustive + random.",
            "operations atomic and persisted in issue order (the property's fault model)", "3 C02"),
    "C03": ("exploration", "runtime monitor over writer/replica sessions: honest proofs for well-formed requests must be accepted, replica observation compared with a replica model after every round, convergence check, then second-hop replication from the converged replica; node cache off/default/tiny/volatile",
            "Held on every replication session executed: all request sequences up to the bound over small logs for every first-upgrade length, plus random sessions with growth rounds, clears and replica reopens, one 33k and one 70k-block log.",
            "well-formedness of a request is W1-W5 of DESIGN.md 2.4", "3 C03"),
    "C04": ("exploration", "alteration battery on replica clones: every single-field alteration, stale proofs and systematic forgeries of every honest proof; must-refuse / unchanged-on-refusal / harmless-on-acceptance oracles; replica node cache off/default/tiny",
            "Held on every altered proof applied (millions per run): complete over fields and node positions per honest proof, bit positions sampled.",
            "clones verified unchanged (observation and store bytes) after each refusal; numeric fields < 2^40", "3 C04"),
    "C07": ("fault_enumeration", "crash enumeration plus byte-prefix tears of the in-flight write, same oracle",
            "As C02 with every proper byte prefix (<=64 B) or framing-boundary/random prefixes of the write in flight applied before reopening.",
            "a torn write leaves exactly a byte prefix of the intended bytes", "3 C07"),
    "C08": ("exploration", "runtime monitor: has() probed on every index below length+2 plus far probes and contiguous_length compared with the model after every step on cores spanning 1-3 bitfield pages, replicas holding far-apart blocks, sampled crash recovery",
            "Held on all scaled histories executed (cores up to 70k/100k blocks, clears straddling page edges, reopen after steps), replicas with gap pages, and sampled crash points.",
            "get() sampled on big cores; has() exhaustive below length+2", "3 C08"),
    "C09": ("exploration", "hostile-input monitor: boundary-value cross products of request tuples and altered/arbitrary proofs under catch_unwind with runaway/hang/memory guards, release and overflow-checked debug builds, usability probe afterwards",
            "Held on tens of millions of create_proof / verify_and_apply_proof calls over 15 core kinds in two builds; no panic, abort, runaway or hang; cores usable afterwards.",
            "numeric fields < 2^40; hang = per-case watchdog confirmed by solo re-run; worker address space capped at 6 GB", "3 C09"),
    "C10": ("fault_enumeration", "single-fault injection at every storage operation index (reads included) of each history; error-surfacing and recover-by-reopen oracle; replica and proof-serving variants",
            "For every history every operation index k is failed once: the call must return Err, reopening must give the before-or-after model state (length, bytes, has, contiguous length, writability), the rest of the history must satisfy the model.",
            "a failed operation is not applied; one fault per run", "3 C10"),
    "C12": ("fault_enumeration", "runtime monitor for NotWritable / zero storage ops on secret-less cores, byte scan of all store images for key material after make_read_only, crash enumeration (with byte-prefix tears for a third of the histories) inside make_read_only, builder gate for every kind of key pair",
            "Held on every history executed with make_read_only at every position of short histories (exhaustive) and random positions of long ones, all crash points inside the call, replicas.",
            "payloads cannot contain key material (pseudo-random)", "3 C12"),
    "C13": ("exploration", "event monitor: every subscriber drained after every public call and compared with the expected event list (plain Hypercore and through the SharedCore wrapper); union-of-announcements check; fault-injected appends",
            "Held on every writer history and replica session executed (honest, stale, altered proofs, refused appends, appends failed by injected storage faults), 1-3 subscribers.",
            "subscribers always drained (< 32 pending events)", "3 C13"),
    "C05": ("exploration", "independent re-implementation (reference Merkle tree, root hash, signable, Ed25519 verify_strict, independent proof verifier) compared with raw tree/oplog bytes after every op and with every node of every honest proof (served by the writer or by a replica); replica-persisted nodes and held leaves; node cache off/default/tiny",
            "Held on every log length 1..130 (all root-set shapes), random histories, and all honest proofs of the sessions executed; relative to an independent implementation anchored on JS-certified bytes and known-answer vectors, not to the JS program.",
            "BLAKE2b and Ed25519 primitives trusted (pinned by KATs); reference written from the scheme description", "3 C05"),
    "C06": ("exploration", "independent layout reader decodes the four store images at every operation boundary and must reproduce the API-reported state; golden SHA-256 file hashes of the interop scenario; reverse: synthetic JS-valid layouts opened by the crate",
            "Held on every boundary image decoded (hundreds of thousands per run) and every synthetic image opened (all four header-bit pairs, single-slot layouts, partial/stale/torn tails).",
            "JS implementation not run; anchor = 20 golden hashes + KATs + layout description (DESIGN.md appendix A)", "3 C06"),
    "C11": ("exploration", "encode/decode monitor against an independent compact-encoding encoder: sizes, bytes, remainders, round trip, every strict prefix; release and overflow-checked debug builds",
            "Held on the full integer-boundary cross products per type, all byte-string lengths 0..300, all node-list lengths 0..8 and random values; hundreds of millions of prefix decodes.",
            "independent encoder = refimpl::{enc_uint, enc_buf}", "3 C11"),
    "C14": ("exploration", "differential execution: the same script under {instrumented, real memory, real disk} backends x {cache off, default, tiny}; scripts of honest rounds, ill-formed requests and altered proofs; results, observations and file bytes compared step by step; golden hashes on every backend; thorough: cross-build trace hashes (cache feature off, sparse off)",
            "Held on every script/configuration pair executed; first differing step is reported with both sides.",
            "data store compared up to trailing zero-filled holes; disk runs with per-operation sync", "3 C14"),
    "C15": ("exploration", "deterministic scheduler (all schedules by DFS for the smallest configurations, seeded PCT/random otherwise) over a backend that suspends at every storage operation, fair-lock schedules in which lock acquisitions are preemption points, OS-thread runs; linearizability checked against the plain Hypercore as sequential specification plus closed-form checks",
            "Held on every schedule executed (hundreds of thousands per run); DFS exhaustive for 23 of 24 smallest configurations in quick.",
            "cooperative preemption points (pre-call, storage operations, contended lock; in the fair-lock schedules every lock acquisition while another task waits); OS schedules in the threaded runs and sanitizer lanes", "3 C15"),
}

NOT_YET = {}

def main():
    props = [json.loads(l) for l in open("/verif/properties.jsonl")]
    checks = []
    na = []
    for p in props:
        pid = p["id"]
        if pid in CHECKS:
            level, tech, text, note, ref = CHECKS[pid]
            checks.append({
                "property_id": pid,
                "quick_cmd": f"./check {pid} quick",
                "thorough_cmd": f"./check {pid} thorough",
                "evidence_file": f"/verif/evidence/{pid}.json",
                "replay_cmd_template": f"./check {pid} --replay {{path}}",
                "engine": "hcverif",
                "level_claimed": {"category": level, "text": text, "design_ref": f"DESIGN.md §{ref}"},
                "level_note": note,
                "technique": tech,
            })
        else:
            na.append({"property_id": pid, "reason": NOT_YET.get(pid, "check not built yet in this revision of /verif (work in progress; planned per DESIGN.md)")})
    m = {
        "version": 1,
        "setup_cmd": "mkdir -p scratch evidence replays && cp /repo/Cargo.lock harness/Cargo.lock && cd harness && CARGO_NET_OFFLINE=true cargo build --release --offline && CARGO_NET_OFFLINE=true cargo build --offline",
        "hooks": {
            "guard": "none (no source hooks: the crate is observed through its public API and a harness-supplied RandomAccess backend via the public Storage::open)",
            "enable": "not needed; checks build /repo unmodified as a path dependency of /verif/harness",
            "baseline_off_cmd": "cd /repo && cargo test --workspace --no-fail-fast --offline",
            "source_commits": [],
            "add_only": True,
        },
        "engines": [
            {"name": "hcverif", "path": "/verif/harness", "serves_properties": sorted(CHECKS.keys()),
             "kind_free_text": "external Rust crate (path dependency on /repo): instrumented storage backend, reference model, independent reference implementation of the v10 scheme, crash/tear/fault enumerators, deterministic scheduler; sharded over 16 worker processes"},
        ],
        "checks": checks,
        "not_applicable": na,
        "notes": "Technique family: runtime monitoring and sanitizers. exit 0 = held on everything explored; exit 1 + VIOLATION line = violation with replay; exit 2 = inconclusive (never folded into the others). Known findings: /verif/known_findings.json.",
    }
    json.dump(m, open("/verif/MANIFEST.json", "w"), indent=1)
    print("wrote MANIFEST.json:", len(checks), "checks,", len(na), "not claimed")

if __name__ == "__main__":
    main()
